import sys, os

sys.path.insert(0, os.getcwd())
import hashlib
import warnings

import numpy as np
import xarray as xr

import uxarray

assert os.path.abspath(uxarray.__file__).startswith(os.path.abspath(os.getcwd()) + os.sep), uxarray.__file__
import uxarray as ux
from uxarray.constants import INT_DTYPE, INT_FILL_VALUE

warnings.filterwarnings("ignore")
MESH = os.path.join(os.getcwd(), "test", "meshfiles")


def dig(a):
    """dtype, shape and content hash of an array (small arrays are shown in full)."""
    a = np.asarray(a)
    h = hashlib.sha256(np.ascontiguousarray(a).tobytes()).hexdigest()[:16]
    txt = f"{a.dtype} {a.shape} {h}"
    if a.size <= 40:
        txt += " " + repr(a.tolist())
    return txt


def show_da(label, da):
    attrs = {k: (dig(v) if isinstance(v, np.ndarray) else repr(v)) for k, v in da.attrs.items()}
    print(f"  {label}: dims={da.dims} {dig(da.values)} attrs={sorted(attrs.items())}")


TABLES = [
    "node_face_connectivity",
    "edge_face_connectivity",
    "face_face_connectivity",
]


def show_grid(label, grid, order=None):
    """Digest of every incidence table of the property, requested in ``order``."""
    print(f"GRID {label}")
    names = list(order) if order is not None else TABLES + ["hole_edge_indices"]
    for name in names:
        try:
            before = name in grid._ds
            da = getattr(grid, name)
            again = getattr(grid, name)
            print(f"  [{name}] supplied_or_cached_before={before} cached_same_object_data="
                  f"{np.shares_memory(np.asarray(da.values), np.asarray(again.values))}")
            show_da(name, da)
        except Exception as exc:  # noqa
            print(f"  {name}: EXC {type(exc).__name__}: {exc}")
    for name in ["n_max_node_faces", "n_max_face_faces", "n_max_face_edges", "n_face", "n_edge", "n_node"]:
        try:
            v = getattr(grid, name)
            print(f"  {name}={v!r} ({type(v).__name__})")
        except Exception as exc:  # noqa
            print(f"  {name}: EXC {type(exc).__name__}: {exc}")
    # the helper tables the incidence tables are derived from
    for name in ["face_edge_connectivity", "edge_node_connectivity", "n_nodes_per_face"]:
        try:
            show_da(name, getattr(grid, name))
        except Exception as exc:  # noqa
            print(f"  {name}: EXC {type(exc).__name__}: {exc}")
    print("  _ds variables:", sorted(str(k) for k in grid._ds.variables))
    if "hole_edge_indices" in grid._ds.variables:
        print("  hole_edge_indices stored as:", type(grid._ds.variables["hole_edge_indices"]).__name__,
              "coord" if "hole_edge_indices" in grid._ds.coords else "data_var",
              type(grid._ds["hole_edge_indices"].values).__name__)


def quad_mesh(nx, ny, rng, p_split=0.3, p_drop=0.25, shuffle=True, fill=INT_FILL_VALUE, dtype=INT_DTYPE):
    """Planar patch of quads, some split into triangles, some removed (holes, isolated
    faces, unused nodes), with faces/nodes renumbered and each face's start corner rotated."""
    lon = np.linspace(-40.0, 40.0, nx + 1)
    lat = np.linspace(-30.0, 30.0, ny + 1)
    nid = lambda i, j: j * (nx + 1) + i
    faces = []
    for j in range(ny):
        for i in range(nx):
            if rng.random() < p_drop:
                continue
            q = [nid(i, j), nid(i + 1, j), nid(i + 1, j + 1), nid(i, j + 1)]
            if rng.random() < p_split:
                faces.append([q[0], q[1], q[2]])
                faces.append([q[0], q[2], q[3]])
            else:
                faces.append(q)
    if not faces:
        faces.append([nid(0, 0), nid(1, 0), nid(1, 1), nid(0, 1)])
    node_lon, node_lat = np.meshgrid(lon, lat)
    node_lon = node_lon.ravel().copy()
    node_lat = node_lat.ravel().copy()
    n_node = node_lon.size
    if shuffle:
        perm = rng.permutation(n_node)  # old -> new
        inv = np.empty(n_node, dtype=int)
        inv[perm] = np.arange(n_node)
        node_lon, node_lat = node_lon[inv], node_lat[inv]
        faces = [[int(perm[n]) for n in f] for f in faces]
        faces = [faces[k] for k in rng.permutation(len(faces))]
        faces = [f[r:] + f[:r] for f, r in ((f, int(rng.integers(0, len(f)))) for f in faces)]
    width = max(len(f) for f in faces)
    conn = np.full((len(faces), width), fill, dtype=dtype)
    for k, f in enumerate(faces):
        conn[k, : len(f)] = f
    return node_lon, node_lat, conn


def fan_mesh(k, closed, extra_hexagon=False):
    """k triangles around one node of valence k (closed) or a half fan (open)."""
    ang = np.linspace(0.0, 360.0 if closed else 170.0, k + (0 if closed else 1), endpoint=not closed)
    node_lon = np.concatenate(([0.0], 10.0 * np.cos(np.deg2rad(ang))))
    node_lat = np.concatenate(([0.0], 10.0 * np.sin(np.deg2rad(ang))))
    n_rim = len(ang)
    faces = []
    for t in range(k):
        a = 1 + t
        b = 1 + (t + 1) % n_rim
        faces.append([0, a, b])
    if extra_hexagon:
        # an isolated hexagon far away from the fan: no neighbour at all
        base = len(node_lon)
        hang = np.deg2rad(np.arange(6) * 60.0)
        node_lon = np.concatenate((node_lon, 90.0 + 5.0 * np.cos(hang)))
        node_lat = np.concatenate((node_lat, 40.0 + 5.0 * np.sin(hang)))
        faces.append(list(range(base, base + 6)))
    width = max(len(f) for f in faces)
    conn = np.full((len(faces), width), INT_FILL_VALUE, dtype=INT_DTYPE)
    for i, f in enumerate(faces):
        conn[i, : len(f)] = f
    return node_lon, node_lat, conn


def synthetic_grids():
    rng = np.random.default_rng(20240917)
    out = []
    for idx, (nx, ny, ps, pd) in enumerate(
        [(1, 1, 0.0, 0.0), (2, 1, 1.0, 0.0), (3, 3, 0.4, 0.3), (5, 4, 0.3, 0.5), (6, 6, 0.5, 0.15), (4, 4, 0.0, 0.7), (9, 7, 0.35, 0.2)]
    ):
        lon, lat, conn = quad_mesh(nx, ny, rng, ps, pd)
        out.append((f"quadmesh{idx}_{nx}x{ny}", ux.Grid.from_topology(lon, lat, conn, fill_value=INT_FILL_VALUE)))
    # foreign fill value / dtype at the input
    lon, lat, conn = quad_mesh(4, 3, rng, 0.5, 0.3, fill=-1, dtype=np.int32)
    out.append(("quadmesh_fill-1_int32", ux.Grid.from_topology(lon, lat, conn, fill_value=-1)))
    for k, closed, hexa in [(3, True, False), (7, True, True), (5, False, False), (12, True, False), (1, False, True)]:
        lon, lat, conn = fan_mesh(k, closed, hexa)
        out.append((f"fan{k}_{'closed' if closed else 'open'}{'_hex' if hexa else ''}",
                    ux.Grid.from_topology(lon, lat, conn, fill_value=INT_FILL_VALUE)))
    return out


FILES = [
    ("ugrid_quad-hexagon", ("ugrid", "quad-hexagon", "grid.nc"), {}),
    ("ugrid_geoflow-small", ("ugrid", "geoflow-small", "grid.nc"), {}),
    ("ugrid_outCSne30", ("ugrid", "outCSne30", "outCSne30.ug"), {}),
    ("exodus_mixed", ("exodus", "mixed", "mixed.exo"), {}),
    ("mpas_QU_primal", ("mpas", "QU", "mesh.QU.1920km.151026.nc"), {}),
    ("mpas_QU_dual", ("mpas", "QU", "mesh.QU.1920km.151026.nc"), {"use_dual": True}),
    ("mpas_oQU480_primal", ("mpas", "QU", "oQU480.231010.nc"), {}),
    ("mpas_oQU480_dual", ("mpas", "QU", "oQU480.231010.nc"), {"use_dual": True}),
    ("icon_R02B04", ("icon", "R02B04", "icon_grid_0010_R02B04_G.nc"), {}),
]


def file_grids():
    for label, parts, kw in FILES:
        path = os.path.join(MESH, *parts)
        if os.path.getsize(path) == 0:
            print(f"GRID {label}: file is empty in this checkout, skipped")
            continue
        yield label, ux.open_grid(path, **kw)


ORDERS = [
    None,
    ["hole_edge_indices", "face_face_connectivity", "node_face_connectivity", "edge_face_connectivity"],
    ["face_face_connectivity", "edge_face_connectivity", "hole_edge_indices", "node_face_connectivity"],
]


def common_digest():
    for order in ORDERS[:2]:
        print("==== file grids, order", order)
        for label, grid in file_grids():
            show_grid(label, grid, order)
    for order in ORDERS:
        print("==== synthetic grids, order", order)
        for label, grid in synthetic_grids():
            show_grid(label, grid, order)
    for order in ORDERS[:2]:
        print("==== synthetic MPAS/ICON sources, order", order)
        for label, grid in source_grids():
            show_grid(label, grid, order)
    # subset of an MPAS grid (tables supplied by the source are sliced, others rebuilt)
    print("==== isel subset")
    g = ux.open_grid(os.path.join(MESH, "mpas", "QU", "mesh.QU.1920km.151026.nc"))
    sub = g.isel(n_face=[0, 1, 2, 3, 50, 51, 100, 101, 102, 161])
    show_grid("mpas_QU_subset", sub)


# ---------------------------------------------------------------------------
# synthetic MPAS / ICON source datasets (the shipped oQU480 and ICON files are empty here)
def _topology(conn):
    faces = [[int(n) for n in row if n != INT_FILL_VALUE] for row in conn]
    edges, edge_nodes, edge_faces, face_edges = {}, [], [], []
    for fi, f in enumerate(faces):
        fe = []
        for a, b in zip(f, f[1:] + f[:1]):
            key = (min(a, b), max(a, b))
            if key not in edges:
                edges[key] = len(edge_nodes)
                edge_nodes.append([a, b])
                edge_faces.append([])
            edge_faces[edges[key]].append(fi)
            fe.append(edges[key])
        face_edges.append(fe)
    n_node = int(max(max(f) for f in faces)) + 1
    node_faces = [[] for _ in range(n_node)]
    node_edges = [[] for _ in range(n_node)]
    for fi, f in enumerate(faces):
        for n in f:
            node_faces[n].append(fi)
    for ei, (a, b) in enumerate(edge_nodes):
        node_edges[a].append(ei)
        node_edges[b].append(ei)
    face_faces = [[([g for g in edge_faces[e] if g != fi] + [-1])[0] for e in fe] for fi, fe in enumerate(face_edges)]
    return faces, edge_nodes, edge_faces, face_edges, node_faces, node_edges, face_faces


def _one_based(rows, width, pad, dtype):
    out = np.empty((len(rows), width), dtype=dtype)
    for i, r in enumerate(rows):
        vals = [v + 1 for v in r]
        if pad == "zero":
            fill = [0] * (width - len(vals))
        else:  # MPAS pads rows with an arbitrary valid index (here: the last/first entry)
            fill = [(vals[-1] if i % 2 else vals[0]) if vals else 0] * (width - len(vals))
        out[i] = vals + fill
    return out


def mpas_dataset(node_lon, node_lat, conn, dtype=np.int32, pad="garbage"):
    faces, edge_nodes, edge_faces, face_edges, node_faces, node_edges, face_faces = _topology(conn)
    n_node = len(node_lon)
    node_faces = node_faces + [[] for _ in range(n_node - len(node_faces))]
    node_edges = node_edges + [[] for _ in range(n_node - len(node_edges))]
    max_edges = max(len(f) for f in faces)
    vdeg = max(1, max(len(x) for x in node_faces))
    edeg = max(1, max(len(x) for x in node_edges))
    ds = xr.Dataset()
    ds["verticesOnCell"] = (("nCells", "maxEdges"), _one_based(faces, max_edges, pad, dtype))
    ds["edgesOnCell"] = (("nCells", "maxEdges"), _one_based(face_edges, max_edges, pad, dtype))
    ds["cellsOnCell"] = (("nCells", "maxEdges"), _one_based(face_faces, max_edges, pad, dtype))
    ds["nEdgesOnCell"] = (("nCells",), np.array([len(f) for f in faces], dtype=dtype))
    ds["cellsOnVertex"] = (("nVertices", "vertexDegree"), _one_based(node_faces, vdeg, "zero", dtype))
    ds["edgesOnVertex"] = (("nVertices", "vertexDegreeE"), _one_based(node_edges, edeg, "zero", dtype))
    ds["cellsOnEdge"] = (("nEdges", "TWO"), _one_based(edge_faces, 2, "zero", dtype))
    ds["verticesOnEdge"] = (("nEdges", "TWO"), _one_based(edge_nodes, 2, "zero", dtype))
    lon = np.deg2rad(np.asarray(node_lon) % 360.0)
    lat = np.deg2rad(np.asarray(node_lat))
    ds["lonVertex"] = (("nVertices",), lon)
    ds["latVertex"] = (("nVertices",), lat)
    ds["lonCell"] = (("nCells",), np.array([lon[f].mean() for f in faces]))
    ds["latCell"] = (("nCells",), np.array([lat[f].mean() for f in faces]))
    ds["lonEdge"] = (("nEdges",), np.array([lon[e].mean() for e in edge_nodes]))
    ds["latEdge"] = (("nEdges",), np.array([lat[e].mean() for e in edge_nodes]))
    ds.attrs["sphere_radius"] = 1.0
    return ds


def icon_dataset(node_lon, node_lat, conn, missing=0, dtype=np.int32):
    faces, edge_nodes, edge_faces, face_edges, node_faces, node_edges, face_faces = _topology(conn)
    assert all(len(f) == 3 for f in faces)
    ds = xr.Dataset()
    tr = lambda rows, width: np.ascontiguousarray(_one_based(rows, width, "zero", dtype).T)
    ds["vertex_of_cell"] = (("nv", "cell"), tr(faces, 3))
    ds["edge_of_cell"] = (("nv", "cell"), tr(face_edges, 3))
    nb = tr(face_faces, 3)  # -1 + 1 == 0 marks a missing neighbour
    nb[nb == 0] = missing
    ds["neighbor_cell_index"] = (("nv", "cell"), nb)
    ac = tr(edge_faces, 2)
    ac[ac == 0] = missing
    ds["adjacent_cell_of_edge"] = (("nc", "edge"), ac)
    ds["edge_vertices"] = (("nc", "edge"), tr(edge_nodes, 2))
    lon = np.deg2rad(np.asarray(node_lon))
    lat = np.deg2rad(np.asarray(node_lat))
    ds["vlon"] = (("vertex",), lon)
    ds["vlat"] = (("vertex",), lat)
    ds["clon"] = (("cell",), np.array([lon[f].mean() for f in faces]))
    ds["clat"] = (("cell",), np.array([lat[f].mean() for f in faces]))
    ds["elon"] = (("edge",), np.array([lon[e].mean() for e in edge_nodes]))
    ds["elat"] = (("edge",), np.array([lat[e].mean() for e in edge_nodes]))
    return ds


def source_datasets():
    rng = np.random.default_rng(77)
    out = []
    for idx, (nx, ny, ps, pd, dt, pad) in enumerate(
        [(3, 3, 0.4, 0.3, np.int32, "garbage"), (6, 5, 0.3, 0.2, np.int64, "garbage"), (5, 5, 0.5, 0.5, np.int32, "zero"), (2, 2, 0.0, 0.0, np.int32, "garbage")]
    ):
        lon, lat, conn = quad_mesh(nx, ny, rng, ps, pd)
        out.append((f"synthetic_mpas{idx}", mpas_dataset(lon, lat, conn, dtype=dt, pad=pad), [False, True]))
    for idx, (nx, ny, pd, missing) in enumerate([(3, 3, 0.3, 0), (6, 4, 0.4, -1), (2, 2, 0.0, 0)]):
        lon, lat, conn = quad_mesh(nx, ny, rng, 1.0, pd)
        out.append((f"synthetic_icon{idx}", icon_dataset(lon, lat, conn, missing=missing), [False]))
    return out


def source_grids():
    for label, ds, duals in source_datasets():
        for use_dual in duals:
            snapshot = {k: v.values.copy() for k, v in ds.variables.items()}
            try:
                grid = ux.open_grid(ds, use_dual=use_dual)
            except Exception as exc:  # noqa
                print(f"GRID {label} dual={use_dual}: OPEN EXC {type(exc).__name__}: {exc}")
                continue
            yield f"{label}_dual={use_dual}", grid
            # the reader must not have written into (or aliased) the source arrays
            touched = [k for k, v in ds.variables.items() if not np.array_equal(v.values, snapshot[k])]
            shared = [
                (t, k)
                for t in TABLES + ["face_edge_connectivity", "edge_node_connectivity", "face_node_connectivity"]
                if t in grid._ds
                for k, v in ds.variables.items()
                if np.shares_memory(grid._ds[t].values, v.values)
            ]
            print(f"  source variables modified: {touched}; tables sharing memory with source: {shared}")


# ---------------------------------------------------------------------------
# specific to refactoring d: the MPAS parsers of the three incidence tables, called directly
def specific():
    from uxarray.io import _mpas

    print("==== direct calls of the MPAS table parsers")
    rng = np.random.default_rng(5)

    def make(dtype, n_cells=9, max_edges=6, n_vert=14, vdeg=3, n_edge=20):
        n_on = rng.integers(3, max_edges + 1, size=n_cells)
        ds = xr.Dataset()
        # rows are padded with arbitrary in-range indices and contain some zeros (missing)
        for name, hi in [("verticesOnCell", n_vert), ("cellsOnCell", n_cells), ("edgesOnCell", n_edge)]:
            a = rng.integers(0, hi + 1, size=(n_cells, max_edges))
            ds[name] = (("nCells", "maxEdges"), a.astype(dtype))
        ds["nEdgesOnCell"] = (("nCells",), n_on.astype(dtype))
        ds["cellsOnVertex"] = (("nVertices", "vertexDegree"), rng.integers(0, n_cells + 1, size=(n_vert, vdeg)).astype(dtype))
        ds["cellsOnEdge"] = (("nEdges", "TWO"), rng.integers(0, n_cells + 1, size=(n_edge, 2)).astype(dtype))
        ds["verticesOnEdge"] = (("nEdges", "TWO"), rng.integers(0, n_vert + 1, size=(n_edge, 2)).astype(dtype))
        return ds

    calls = [
        ("_parse_node_faces", ("primal",)),
        ("_parse_node_faces", ("dual",)),
        ("_parse_node_faces", ("something else",)),
        ("_parse_edge_faces", ("primal",)),
        ("_parse_edge_faces", ("dual",)),
        ("_parse_edge_faces", ("something else",)),
        ("_parse_face_faces", ()),
    ]
    for dtype in [np.int32, np.int64, np.int16, np.uint8, np.float64]:
        in_ds = make(dtype)
        snapshot = {k: v.values.copy() for k, v in in_ds.variables.items()}
        for fname, extra in calls:
            out_ds = xr.Dataset()
            ret = getattr(_mpas, fname)(in_ds, out_ds, *extra)
            print(f" {fname}{extra} dtype_in={np.dtype(dtype)} returns {ret!r}; out variables {sorted(out_ds.variables)}")
            for k in out_ds.variables:
                show_da(k, out_ds[k])
                print("   aliases input:", [n for n, v in in_ds.variables.items() if np.shares_memory(v.values, out_ds[k].values)])
        print("  inputs modified:", [k for k, v in in_ds.variables.items() if not np.array_equal(v.values, snapshot[k])])

    print("==== keyword call, pre-existing output variable, missing source variables")
    in_ds = make(np.int32)
    out_ds = xr.Dataset()
    out_ds["edge_face_connectivity"] = (("n_edge", "two"), np.zeros((20, 2), dtype=INT_DTYPE))
    _mpas._parse_edge_faces(in_ds=in_ds, out_ds=out_ds, mesh_type="primal")
    show_da("overwritten edge_face_connectivity", out_ds["edge_face_connectivity"])
    for drop in ["nEdgesOnCell", "cellsOnCell", "verticesOnCell", "cellsOnVertex", "cellsOnEdge", "verticesOnEdge"]:
        bad = in_ds.drop_vars(drop)
        for fname, extra in calls:
            out_ds = xr.Dataset()
            try:
                getattr(_mpas, fname)(bad, out_ds, *extra)
                print(f" without {drop}: {fname}{extra} ok {sorted(out_ds.variables)}")
            except Exception as exc:  # noqa
                print(f" without {drop}: {fname}{extra} EXC {type(exc).__name__}: {str(exc)[:80]!r} out={sorted(out_ds.variables)}")
    # nEdgesOnCell of the wrong length
    bad = in_ds.drop_vars("nEdgesOnCell")
    bad["nEdgesOnCell"] = (("other",), np.array([3, 4], dtype=np.int32))
    for fname, extra in calls:
        out_ds = xr.Dataset()
        try:
            getattr(_mpas, fname)(bad, out_ds, *extra)
            print(f" short nEdgesOnCell: {fname}{extra} ok")
        except Exception as exc:  # noqa
            print(f" short nEdgesOnCell: {fname}{extra} EXC {type(exc).__name__}: {str(exc)[:100]!r}")
    print("public helpers still importable:", [hasattr(_mpas, n) for n in ("_replace_padding", "_replace_zeros", "_to_zero_index")])


if __name__ == "__main__":
    common_digest()
    specific()
