import sys, os

sys.path.insert(0, os.getcwd())

import hashlib
import warnings

import numpy as np
import xarray as xr

warnings.filterwarnings("ignore")

import uxarray
import uxarray as ux

assert os.path.abspath(uxarray.__file__).startswith(os.path.abspath(os.getcwd()) + os.sep), uxarray.__file__

import dask.array as da

from uxarray.constants import INT_FILL_VALUE
from uxarray.io._mpas import _parse_face_areas

MPAS = "test/meshfiles/mpas/QU/mesh.QU.1920km.151026.nc"


def digest(a):
    if a is None:
        return "None"
    a = np.asarray(a)
    if a.dtype == object:
        return "object %r" % (a.tolist(),)
    return "%s %s %s" % (
        a.dtype,
        a.shape,
        hashlib.sha256(np.ascontiguousarray(a).tobytes()).hexdigest()[:20],
    )


def describe(da_):
    return "%s name=%r dims=%r attrs=%r type=%s data=%s" % (
        digest(da_.values),
        da_.name,
        da_.dims,
        dict(da_.attrs),
        type(da_).__name__,
        type(da_.data).__name__,
    )


def attempt(label, fn):
    try:
        out = fn()
    except Exception as e:  # noqa
        print(label, "| EXC", type(e).__name__, str(e)[:100])
        return None
    return out


# ----------------------------------------------------------------------------
# A. the face_areas getter / setter on grids that do not store areas
# ----------------------------------------------------------------------------
def mixed_topology():
    """a triangle, a quadrilateral and a hexagon, padded with the fill value."""
    lon = np.array([0.0, 10.0, 10.0, 0.0, 20.0, 25.0, 20.0, 15.0, -170.0, 175.0, 170.0, 175.0, -175.0, -170.0 + 0.0])
    lat = np.array([0.0, 0.0, 10.0, 10.0, 0.0, 5.0, 10.0, 5.0, 85.0, 80.0, 85.0, 88.0, 89.0, 88.0])
    F = INT_FILL_VALUE
    conn = np.array(
        [
            [0, 1, 2, F, F, F],
            [0, 2, 3, F, F, F],
            [1, 4, 5, 6, F, F],
            [8, 9, 10, 11, 12, 13],
        ]
    )
    return ux.Grid.from_topology(node_lon=lon, node_lat=lat, face_node_connectivity=conn, fill_value=F)


makers = {
    "mixed topology": mixed_topology,
    "quad-hexagon": lambda: ux.open_grid("test/meshfiles/ugrid/quad-hexagon/grid.nc"),
    "mixed.exo": lambda: ux.open_grid("test/meshfiles/exodus/mixed/mixed.exo"),
    "outCSne8.g": lambda: ux.open_grid("test/meshfiles/exodus/outCSne8/outCSne8.g"),
    "scrip ne8": lambda: ux.open_grid("test/meshfiles/scrip/outCSne8/outCSne8.nc"),
    "geoflow": lambda: ux.open_grid("test/meshfiles/ugrid/geoflow-small/grid.nc"),
    "mpas primal": lambda: ux.open_grid(MPAS),
    "mpas dual": lambda: ux.open_grid(MPAS, use_dual=True),
}


class Counter:
    """counts the calls of Grid.compute_face_areas and records their arguments."""

    def __init__(self):
        self.calls = []
        self.original = ux.Grid.compute_face_areas

    def __enter__(self):
        counter = self

        def counted(grid, *args, **kwargs):
            counter.calls.append((args, tuple(sorted(kwargs.items()))))
            return counter.original(grid, *args, **kwargs)

        ux.Grid.compute_face_areas = counted
        return self

    def __exit__(self, *exc):
        ux.Grid.compute_face_areas = self.original


for name, make in makers.items():
    print("== grid", name)
    g = make()
    print("stored at open:", "face_areas" in g._ds, "| _face_jacobian", digest(g._face_jacobian), "| _face_areas", digest(getattr(g, "_face_areas", None)))
    with Counter() as c:
        first = g.face_areas
        second = g.face_areas
        print("getter:", describe(first))
        print("calls of compute_face_areas:", c.calls)
        print("second access equal:", bool(np.array_equal(first.values, second.values)), "| same object:", first is second, "| shares memory:", bool(np.shares_memory(first.values, second.values)))
        print("shares memory with _ds variable:", bool(np.shares_memory(first.values, g._ds["face_areas"].values)))
        fa_attr = getattr(g, "_face_areas", None)
        print("_face_areas:", digest(fa_attr), "| aliases the cached variable:", bool(fa_attr is not None and np.shares_memory(fa_attr, first.values)))
        print("_face_jacobian:", digest(g._face_jacobian), "| face_jacobian:", digest(g.face_jacobian))
        print("calls after face_jacobian:", len(c.calls))
        print("in descriptors:", "face_areas" in g.descriptors, "| sum", repr(float(first.values.sum())))

    # jacobian first, then areas
    g2 = make()
    with Counter() as c:
        j = g2.face_jacobian
        print("face_jacobian first:", digest(j), "| calls", c.calls, "| stored now:", "face_areas" in g2._ds)
        print("then face_areas:", digest(g2.face_areas.values), "| calls", len(c.calls))

    # another rule first: the cached areas are still the default ones
    g3 = make()
    try:
        a7, j7 = g3.compute_face_areas(quadrature_rule="gaussian", order=7, latlon=False)
        print("gaussian 7 cartesian:", digest(a7), digest(j7), "| stored:", "face_areas" in g3._ds)
    except Exception as e:  # noqa  (numba typing errors quote line numbers: type only)
        print("gaussian 7 cartesian: EXC", type(e).__name__)
        a7, j7 = g3.compute_face_areas(quadrature_rule="gaussian", order=7)
        print("gaussian 7 spherical:", digest(a7), digest(j7), "| stored:", "face_areas" in g3._ds)
    fa3 = g3.face_areas
    d3, dj3 = make().compute_face_areas()
    print("face_areas afterwards:", digest(fa3.values), "| equals fresh default:", bool(np.array_equal(fa3.values, d3)) if "mpas" not in name else "read from file")
    print("_face_areas afterwards:", digest(g3._face_areas), "| _face_jacobian:", digest(g3._face_jacobian))

    # setter
    g4 = make()
    with Counter() as c:
        given = xr.DataArray(np.arange(g4.n_face, dtype=np.float32) + 0.5, dims=["n_face"], attrs={"mine": 1}, name="whatever")
        g4.face_areas = given
        back = g4.face_areas
        print("setter then getter:", describe(back), "| calls", c.calls)
        print("shares memory with the given array:", bool(np.shares_memory(back.values, given.values)), "| _face_jacobian", digest(g4._face_jacobian))
        print("face_jacobian after assignment:", digest(g4.face_jacobian), "| calls", len(c.calls))
        attempt("setter ndarray", lambda: setattr(g4, "face_areas", np.ones(g4.n_face)))
        attempt("setter None", lambda: setattr(g4, "face_areas", None))
        attempt("setter Variable", lambda: setattr(g4, "face_areas", xr.Variable(["n_face"], np.ones(g4.n_face))))
        attempt("setter wrong length", lambda: setattr(g4, "face_areas", xr.DataArray(np.ones(g4.n_face + 1), dims=["n_face"])))
        print("after failed sets:", describe(g4.face_areas))
        g4.face_areas = xr.DataArray(np.ones(g4.n_face), dims=["n_face"])
        print("overwritten:", describe(g4.face_areas), "| calls", len(c.calls))

    # a failing computation leaves nothing behind
    g5 = make()
    stored_before = "face_areas" in g5._ds
    original = ux.Grid.compute_face_areas

    def boom(self, *a, **k):
        raise ValueError("Negative jacobian found. (test)")

    ux.Grid.compute_face_areas = boom
    try:
        out = attempt("getter with failing computation", lambda: g5.face_areas)
        print("   result:", None if out is None else digest(out.values), "| stored before/after:", stored_before, "face_areas" in g5._ds, "| _face_jacobian", digest(g5._face_jacobian))
        attempt("face_jacobian with failing computation", lambda: print("   ->", digest(g5.face_jacobian)))
    finally:
        ux.Grid.compute_face_areas = original
    print("recovered:", digest(g5.face_areas.values))

    # users of the getter
    g6 = make()
    enc = attempt("encode SCRIP", lambda: g6.encode_as("SCRIP"))
    if enc is not None:
        print("SCRIP grid_area:", digest(enc["grid_area"].values), "| shares memory with cache:", bool(np.shares_memory(enc["grid_area"].values, g6.face_areas.values)))
    for f in ("grid_geoflow.exo",):
        if os.path.exists(f):
            os.remove(f)

# isel / copy keep or recompute
g = mixed_topology()
_ = g.face_areas
sub = g.isel(n_face=[3, 0])
print("isel:", "face_areas" in sub._ds, describe(sub.face_areas))
try:
    import copy

    cp = copy.deepcopy(g)
    print("deepcopy:", describe(cp.face_areas), "| shares memory:", bool(np.shares_memory(cp.face_areas.values, g.face_areas.values)))
except Exception as e:  # noqa
    print("deepcopy EXC", type(e).__name__)


# ----------------------------------------------------------------------------
# B. _parse_face_areas on synthetic MPAS datasets
# ----------------------------------------------------------------------------
def mpas_like(attrs, cell=None, tri=None, leave_out=()):
    cell = np.array([1.0, 2.5, 4.0e12, 0.0, -3.0, np.nan, np.inf]) if cell is None else cell
    tri = np.array([10.0, 20.0, 30.0]) if tri is None else tri
    ds = xr.Dataset(attrs=dict(attrs))
    if "areaCell" not in leave_out:
        ds["areaCell"] = xr.DataArray(cell, dims=["nCells"])
    if "areaTriangle" not in leave_out:
        ds["areaTriangle"] = xr.DataArray(tri, dims=["nVertices"])
    return ds


class Weird:
    def __ne__(self, other):
        return False

    def __pow__(self, p):
        return 4.0


radii = [
    ("absent", {}),
    ("1.0", {"sphere_radius": 1.0}),
    ("int 1", {"sphere_radius": 1}),
    ("np.float64 1", {"sphere_radius": np.float64(1.0)}),
    ("np.float32 1", {"sphere_radius": np.float32(1.0)}),
    ("True", {"sphere_radius": True}),
    ("6371229.0", {"sphere_radius": 6371229.0}),
    ("int 2", {"sphere_radius": 2}),
    ("np.int32 3", {"sphere_radius": np.int32(3)}),
    ("np.float32 2", {"sphere_radius": np.float32(2.0)}),
    ("-1.0", {"sphere_radius": -1.0}),
    ("0.0", {"sphere_radius": 0.0}),
    ("int 0", {"sphere_radius": 0}),
    ("nan", {"sphere_radius": float("nan")}),
    ("inf", {"sphere_radius": float("inf")}),
    ("1+1e-16", {"sphere_radius": 1.0 + 1e-16}),
    ("1+eps", {"sphere_radius": 1.0 + 2.3e-16}),
    ("None", {"sphere_radius": None}),
    ("str", {"sphere_radius": "6371229.0"}),
    ("str 1.0", {"sphere_radius": "1.0"}),
    ("array(1.0)", {"sphere_radius": np.array(1.0)}),
    ("array([1.0])", {"sphere_radius": np.array([1.0])}),
    ("array([2.0])", {"sphere_radius": np.array([2.0])}),
    ("array([1.0, 2.0])", {"sphere_radius": np.array([1.0, 2.0])}),
    ("list", {"sphere_radius": [2.0]}),
    ("weird", {"sphere_radius": Weird()}),
    ("other spelling", {"Sphere_Radius": 5.0, "sphere_radius ": 7.0}),
]

with np.errstate(all="ignore"):
    for label, attrs in radii:
        for mesh_type in ("primal", "dual"):
            in_ds = mpas_like(attrs)
            out_ds = xr.Dataset()
            src = in_ds["areaCell" if mesh_type == "primal" else "areaTriangle"].data
            r = attempt("radius %s %s" % (label, mesh_type), lambda: _parse_face_areas(in_ds, out_ds, mesh_type=mesh_type))
            if "face_areas" in out_ds:
                fa = out_ds["face_areas"]
                print(
                    "radius %s %s | returns %r | %s | aliases the source: %s | source unchanged: %s"
                    % (label, mesh_type, r, describe(fa), bool(np.shares_memory(fa.values, src)), digest(src))
                )
            else:
                print("radius %s %s | nothing stored" % (label, mesh_type))

    # other mesh types fall through to the dual variable
    for mesh_type in ("Primal", "foo", "", None, 0, b"primal", np.str_("primal")):
        in_ds = mpas_like({"sphere_radius": 2.0})
        out_ds = xr.Dataset()
        attempt("mesh_type %r" % (mesh_type,), lambda: _parse_face_areas(in_ds, out_ds, mesh_type=mesh_type))
        print("mesh_type %r |" % (mesh_type,), describe(out_ds["face_areas"]) if "face_areas" in out_ds else "nothing stored")

    # positional / keyword call forms
    in_ds = mpas_like({"sphere_radius": 2.0})
    out_ds = xr.Dataset()
    _parse_face_areas(in_ds, out_ds, "primal")
    print("positional |", describe(out_ds["face_areas"]))
    attempt("no mesh_type", lambda: _parse_face_areas(in_ds, out_ds))

    # missing variables: raised before the radius is looked at
    for leave_out, mesh_type, attrs in [
        (("areaCell",), "primal", {"sphere_radius": "bad"}),
        (("areaTriangle",), "dual", {"sphere_radius": "bad"}),
        (("areaTriangle",), "primal", {}),
        (("areaCell",), "dual", {"sphere_radius": 3.0}),
    ]:
        in_ds = mpas_like(attrs, leave_out=leave_out)
        out_ds = xr.Dataset()
        attempt("missing %s %s" % (leave_out, mesh_type), lambda: _parse_face_areas(in_ds, out_ds, mesh_type=mesh_type))
        print("missing %s %s |" % (leave_out, mesh_type), describe(out_ds["face_areas"]) if "face_areas" in out_ds else "nothing stored")

    # dtypes of the stored areas: float32, integers, dask, 0 faces, 2-d
    variants = {
        "float32": np.array([1.0, 2.0, 3.0], dtype=np.float32),
        "int64": np.array([4, 8, 12], dtype=np.int64),
        "int32": np.array([4, 8, 12], dtype=np.int32),
        "empty": np.array([], dtype=np.float64),
        "dask": da.from_array(np.array([1.0, 2.0, 3.0, 4.0]), chunks=2),
        "bool": np.array([True, False]),
    }
    for vname, arr in variants.items():
        for label, attrs in [("absent", {}), ("1.0", {"sphere_radius": 1.0}), ("2.0", {"sphere_radius": 2.0}), ("int 2", {"sphere_radius": 2}), ("np.float32 2", {"sphere_radius": np.float32(2)})]:
            in_ds = mpas_like(attrs, cell=arr, tri=arr)
            out_ds = xr.Dataset()
            attempt("variant %s %s" % (vname, label), lambda: _parse_face_areas(in_ds, out_ds, mesh_type="primal"))
            if "face_areas" in out_ds:
                fa = out_ds["face_areas"]
                same = fa.data is in_ds["areaCell"].data
                print("variant %s radius %s | %s | same data object: %s" % (vname, label, describe(fa), same))

    # an output dataset that already holds areas is overwritten; other variables stay
    in_ds = mpas_like({"sphere_radius": 10.0})
    out_ds = xr.Dataset({"face_areas": xr.DataArray(np.zeros(7), dims=["n_face"]), "other": xr.DataArray(np.ones(2), dims=["k"])})
    _parse_face_areas(in_ds, out_ds, mesh_type="primal")
    print("overwrite |", describe(out_ds["face_areas"]), "|", sorted(out_ds.data_vars))
    print("descriptor attrs untouched |", uxarray.conventions.descriptors.FACE_AREAS_ATTRS, uxarray.conventions.descriptors.FACE_AREAS_DIMS)


# ----------------------------------------------------------------------------
# C. a real MPAS mesh, as stored and on a sphere of another radius
# ----------------------------------------------------------------------------
raw = xr.open_dataset(MPAS, engine="netcdf4").load()
print("file radius", repr(raw.attrs.get("sphere_radius")), type(raw.attrs.get("sphere_radius")).__name__)


def with_radius(ds, radius, scale_areas=True):
    out = ds.copy(deep=True)
    out.attrs = dict(ds.attrs)
    if radius is None:
        out.attrs.pop("sphere_radius", None)
    else:
        out.attrs["sphere_radius"] = radius
        if scale_areas:
            for v in ("areaCell", "areaTriangle"):
                out[v] = out[v] * float(radius) ** 2
    return out


with np.errstate(all="ignore"):
    for label, ds in [
        ("as stored", raw),
        ("no radius attr", with_radius(raw, None)),
        ("radius 6371229.0", with_radius(raw, 6371229.0)),
        ("radius int 2", with_radius(raw, 2)),
        ("radius 0.5 float32", with_radius(raw, np.float32(0.5))),
        ("radius 3.7, areas left as stored", with_radius(raw, 3.7, scale_areas=False)),
        ("radius 1.0, areas times 9", with_radius(with_radius(raw, 3.0), 1.0, scale_areas=False)),
    ]:
        for use_dual in (False, True):
            g = attempt("mpas %s dual=%s" % (label, use_dual), lambda: ux.Grid.from_dataset(ds, use_dual=use_dual))
            if g is None:
                continue
            with Counter() as c:
                fa = g.face_areas
                print("mpas %s dual=%s | %s | sum %r | calls %d" % (label, use_dual, describe(fa), float(fa.values.sum()), len(c.calls)))
                print("   _face_jacobian", digest(g._face_jacobian), "| face_jacobian", digest(g.face_jacobian))
            fresh, _ = g.compute_face_areas()
            print("   computed default:", digest(fresh), "| max rel diff to stored %.3e" % float(np.max(np.abs(fresh - fa.values) / fresh)))
            print("   still the stored ones:", digest(g.face_areas.values), "| total", repr(g.calculate_total_face_area()))
