import sys, os; sys.path.insert(0, os.getcwd())
import hashlib, warnings
import numpy as np
import xarray as xr
import uxarray as ux
assert os.path.abspath(ux.__file__).startswith(os.path.abspath(os.getcwd()) + os.sep), ux.__file__
import uxarray.constants as C
from uxarray.constants import INT_FILL_VALUE, INT_DTYPE
warnings.simplefilter("ignore")


def dig(a):
    if a is None:
        return "None"
    a = np.asarray(a)
    assert a.dtype != object
    return "%s %s %s" % (a.dtype, a.shape, hashlib.sha256(np.ascontiguousarray(a).tobytes()).hexdigest()[:16])


def show(tag, fn):
    try:
        r = fn()
    except Exception as e:  # noqa
        print(tag, "EXC", type(e).__name__, str(e)[:300])
        return None
    print(tag, r)
    return r


# ---- constants: values, types and the public names of the module
for k in sorted(n for n in vars(C) if n.isupper() and not n.startswith("_")):
    v = getattr(C, k)
    print("const", k, type(v).__name__, repr(v), v.hex() if isinstance(v, float) else "")
print("const fill==iinfo", C.INT_FILL_VALUE == np.iinfo(np.intp).min, type(C.INT_FILL_VALUE) is int)
print("const tol bits", np.float64(C.ERROR_TOLERANCE).tobytes().hex(), np.float64(C.MACHINE_EPSILON).tobytes().hex())
print("const public", sorted(n for n in vars(C) if not n.startswith("_")))

F = INT_FILL_VALUE
lon_f = np.array([170.0, -175.0, -170.0, 175.0, 178.0, -178.0, 160.0, 165.0])
lat_f = np.array([80.0, 80.0, 86.0, 86.0, 89.0, 75.0, 70.0, 78.0])
conn_mixed = np.array([[0, 1, 2, 3, F], [3, 2, 4, F, F], [0, 5, 1, F, F], [6, 5, 0, 7, F], [7, 0, 3, F, F]], dtype=INT_DTYPE)
lon_i = np.array([0, 10, 10, 0, 20, 20, 5], dtype=np.int64)
lat_i = np.array([0, 0, 10, 10, 0, 10, 20], dtype=np.int64)
conn_i = np.array([[0, 1, 2, 3], [1, 4, 5, 2], [3, 2, 6, F]], dtype=INT_DTYPE)


def grids():
    yield "mixed_f64", lambda: ux.Grid.from_topology(lon_f, lat_f, conn_mixed, fill_value=F)
    yield "int_lonlat", lambda: ux.Grid.from_topology(lon_i, lat_i, conn_i, fill_value=F)
    yield "one_tri", lambda: ux.Grid.from_face_vertices([[0.0, 0.0], [30.0, 0.0], [0.0, 30.0]], latlon=True)
    yield "verts_xyz", lambda: ux.Grid.from_face_vertices(
        [[[1.0, 0, 0], [0, 1.0, 0], [0, 0, 1.0]], [[1.0, 0, 0], [0, 0, 1.0], [0, -1.0, 0]]], latlon=False)
    for rel in ("test/meshfiles/ugrid/outCSne30/outCSne30.ug", "test/meshfiles/exodus/mixed/mixed.exo",
                "test/meshfiles/ugrid/geoflow-small/grid.nc", "test/meshfiles/scrip/outCSne8/outCSne8.nc"):
        if os.path.exists(rel):
            yield rel.split("/")[-1], (lambda rel=rel: ux.open_grid(rel))


RULES = [("triangular", o) for o in (1, 4, 8, 10, 12)] + [("gaussian", o) for o in range(1, 11)]


def describe(r):
    return (type(r).__name__, dig(r.values), r.dims, r.name, r.uxgrid is not None, sorted(r.attrs.items()), list(r.coords))


for name, mk in grids():
    g = mk()
    rng = np.random.default_rng(7)
    print("==", name, g.n_face, g.n_node)

    # ---- face_areas getter: lazily filled, cached, equal to a fresh default computation
    def getter(g=g):
        before = "face_areas" in g._ds
        jac_before = g._face_jacobian is None
        fa = g.face_areas
        again = g.face_areas
        fresh, jac = g.compute_face_areas()
        return (before, jac_before, "face_areas" in g._ds, type(fa).__name__, dig(fa.values), fa.dims, sorted(fa.attrs.items()),
                fa.name, bool(np.array_equal(fa.values, fresh)), bool(np.array_equal(again.values, fa.values)),
                np.shares_memory(fa.values, again.values), dig(g.face_jacobian), bool(np.array_equal(g.face_jacobian, jac)),
                bool((fa.values >= 0).all()), repr(float(fa.values.sum())))
    show(name + " getter", getter)

    # ---- integrate on face centred data: 1-d, with leading dims, integer data, named
    nf = g.n_face
    data1 = rng.standard_normal(nf)
    data2 = rng.standard_normal((3, nf))
    data3 = rng.integers(-5, 5, size=(2, 3, nf))
    for rule, order in [(None, None)] + RULES:
        kw = {} if rule is None else {"quadrature_rule": rule, "order": order}
        show("%s integ1 %s %s" % (name, rule, order),
             lambda: describe(ux.UxDataArray(data1, dims=["n_face"], uxgrid=g, name="psi").integrate(**kw)))
        show("%s integ2 %s %s" % (name, rule, order),
             lambda: describe(ux.UxDataArray(data2, dims=["time", "n_face"], uxgrid=g, name="t2").integrate(**kw)))
    show(name + " integ3 pos", lambda: describe(ux.UxDataArray(data3, dims=["t", "lev", "n_face"], uxgrid=g).integrate("gaussian", 5)))
    show(name + " integ ones == total", lambda: (
        repr(float(ux.UxDataArray(np.ones(nf), dims=["n_face"], uxgrid=g).integrate().values)),
        repr(float(g.calculate_total_face_area())), repr(float(g.face_areas.values.sum()))))
    show(name + " integ attrs", lambda: describe(ux.UxDataArray(data1, dims=["n_face"], uxgrid=g, name=5, attrs={"units": "K"}).integrate()))
    # ---- exceptions, in the order the branches are tested
    show(name + " face not last", lambda: describe(ux.UxDataArray(data2.T, dims=["n_face", "time"], uxgrid=g).integrate()))
    show(name + " node", lambda: describe(ux.UxDataArray(np.ones(g.n_node), dims=["n_node"], uxgrid=g).integrate()))
    show(name + " node+face", lambda: describe(ux.UxDataArray(np.ones((nf, g.n_node)), dims=["n_face", "n_node"], uxgrid=g).integrate()))
    show(name + " edge", lambda: describe(ux.UxDataArray(np.ones(g.n_edge), dims=["n_edge"], uxgrid=g).integrate()))
    show(name + " edge+node", lambda: describe(ux.UxDataArray(np.ones((g.n_edge, g.n_node)), dims=["n_edge", "n_node"], uxgrid=g).integrate()))
    show(name + " other", lambda: describe(ux.UxDataArray(np.ones((2, 4)), dims=["a", "b"], uxgrid=g).integrate()))
    show(name + " scalar", lambda: describe(ux.UxDataArray(np.float64(2.0), uxgrid=g).integrate()))
    show(name + " bad rule", lambda: describe(ux.UxDataArray(data1, dims=["n_face"], uxgrid=g).integrate("simpson", 4)))
    show(name + " wrong length", lambda: describe(ux.UxDataArray(np.ones(nf + 1), dims=["n_face"], uxgrid=g).integrate()))

    # ---- face_areas setter: stores the very object semantics, rejects non DataArrays, getter returns stored values
    def setter(g=g):
        new = xr.DataArray(np.arange(g.n_face, dtype=float), dims=["n_face"], attrs={"k": 1})
        g.face_areas = new
        got = g.face_areas
        jac = g.face_jacobian
        return (dig(got.values), got.dims, sorted(got.attrs.items()), bool(np.array_equal(got.values, new.values)),
                dig(jac), dig(g.compute_face_areas()[0]), dig(g.face_areas.values))
    show(name + " setter", setter)
    def bad_setter(g=g):
        g.face_areas = np.ones(g.n_face)
    show(name + " setter ndarray", bad_setter)
    def bad_setter2(g=g):
        g.face_areas = xr.DataArray(np.ones(g.n_face + 2), dims=["n_face"])
    show(name + " setter wrong size", bad_setter2)
    show(name + " after bad setters", lambda g=g: dig(g.face_areas.values))

# fresh grid: face_jacobian first (goes through the face_areas getter), then the setter before any computation
def jac_first():
    g = ux.Grid.from_topology(lon_f, lat_f, conn_mixed, fill_value=F)
    j = g.face_jacobian
    return (dig(j), "face_areas" in g._ds, dig(g.face_areas.values), j is g.face_jacobian)
show("jacobian first", jac_first)
def set_first():
    g = ux.Grid.from_topology(lon_f, lat_f, conn_mixed, fill_value=F)
    g.face_areas = xr.DataArray(np.full(5, 2.5), dims=["n_face"])
    return (dig(g.face_areas.values), g._face_jacobian is None, dig(g.face_jacobian), dig(g.face_areas.values))
show("setter first", set_first)

# dataset level integrate and SCRIP encoding also read the areas
def via_dataset():
    uxds = ux.open_dataset("test/meshfiles/ugrid/outCSne30/outCSne30.ug", "test/meshfiles/ugrid/outCSne30/outCSne30_vortex.nc")
    r = uxds["psi"].integrate()
    return describe(r), repr(float(r.values)), repr(float(uxds["psi"].integrate("gaussian", 3).values))
if os.path.exists("test/meshfiles/ugrid/outCSne30/outCSne30_vortex.nc"):
    show("outCSne30 psi", via_dataset)
