import sys, os; sys.path.insert(0, os.getcwd())
import hashlib
import re
import warnings

warnings.filterwarnings("ignore")

import numpy as np
import xarray as xr
import uxarray
import uxarray as ux

assert os.path.abspath(uxarray.__file__).startswith(os.path.abspath(os.getcwd()) + os.sep)

MESHES = {
    "mixed": "test/meshfiles/exodus/mixed/mixed.exo",  # tri + quad, fill values
    "mpas": "test/meshfiles/mpas/QU/mesh.QU.1920km.151026.nc",  # ships its own edge tables
    "quadhex": "test/meshfiles/ugrid/quad-hexagon/grid.nc",  # 4 faces, quad + hexagon
    "ne8": "test/meshfiles/exodus/outCSne8/outCSne8.g",
}


def h(a):
    a = np.ascontiguousarray(np.asarray(a))
    return "%s%s:%s" % (a.dtype, a.shape, hashlib.sha1(a.tobytes()).hexdigest()[:12])


def dig_ds(ds):
    out = []
    for name in sorted(ds.variables):
        v = ds[name]
        out.append(
            "    %s %s %s attrs=%s" % (name, v.dims, h(v.values), sorted(v.attrs))
        )
    return "\n".join(out)


DERIVED = [
    "edge_node_connectivity",
    "face_edge_connectivity",
    "node_face_connectivity",
    "edge_face_connectivity",
    "face_face_connectivity",
    "n_nodes_per_face",
    "face_lon",
    "face_lat",
    "edge_lon",
    "node_x",
    "face_areas",
    "edge_node_distances",
    "hole_edge_indices",
]


def dig_grid(g, derive=True):
    print("   grid n_face=%d n_node=%d n_edge=%s spec=%s" % (g.n_face, g.n_node, g._ds.sizes.get("n_edge"), g.source_grid_spec))
    print(dig_ds(g._ds))
    if derive:
        for name in DERIVED:
            try:
                print("    derived %s %s" % (name, h(getattr(g, name).values)))
            except Exception as e:
                print("    derived %s EXC %s %s" % (name, type(e).__name__, str(e)[:80]))


def dig_da(da, derive=False):
    print("   type=%s name=%r dims=%s attrs=%s data=%s" % (type(da).__name__, da.name, da.dims, dict(da.attrs), h(da.values)))
    for c in sorted(da.coords):
        print("    coord %s %s %s" % (c, da.coords[c].dims, h(da.coords[c].values)))
    if hasattr(da, "uxgrid"):
        dig_grid(da.uxgrid, derive=derive)


def attempt(label, fn, dig):
    print("--", label)
    try:
        res = fn()
    except Exception as e:
        # sets inside messages print in hash order: normalise
        msg = re.sub(r"\{[^}]*\}", lambda m: "{" + ", ".join(sorted(m.group(0)[1:-1].split(", "))) + "}", str(e))
        print("   EXC %s: %s" % (type(e).__name__, msg[:160]))
        return None
    dig(res)
    return res


def fresh(name, history=()):
    g = ux.open_grid(MESHES[name])
    for attr in history:
        getattr(g, attr)
    return g


def make_das(g):
    """face / node / edge centred data of rank 1, 2, 3 with coordinates on and off the grid dim"""
    rng = np.random.default_rng(7)
    n_edge = g.n_edge
    das = {}
    das["face1"] = ux.UxDataArray(
        np.arange(g.n_face, dtype=np.float64) * 1.5,
        dims=["n_face"],
        name="f1",
        attrs={"units": "K"},
        coords={"fid": ("n_face", np.arange(g.n_face) * 10)},
        uxgrid=g,
    )
    das["face3"] = ux.UxDataArray(
        rng.standard_normal((2, g.n_face, 3)).astype(np.float32),
        dims=["time", "n_face", "lev"],
        name="f3",
        coords={"time": [10, 20], "lev": [0.1, 0.2, 0.3], "flat": ("n_face", np.linspace(0, 1, g.n_face))},
        uxgrid=g,
    )
    das["node2"] = ux.UxDataArray(
        rng.integers(0, 100, (g.n_node, 2)),
        dims=["n_node", "lev"],
        name="n2",
        coords={"nid": ("n_node", np.arange(g.n_node)[::-1].copy())},
        uxgrid=g,
    )
    das["edge2"] = ux.UxDataArray(
        rng.standard_normal((2, n_edge)),
        dims=["time", "n_edge"],
        name=None,
        attrs={"long_name": "edge thing"},
        uxgrid=g,
    )
    das["facenode"] = ux.UxDataArray(
        rng.standard_normal((g.n_face, g.n_node)),
        dims=["n_face", "n_node"],
        name="fn",
        uxgrid=g,
    )
    das["nogrid"] = ux.UxDataArray(
        np.arange(6.0).reshape(2, 3), dims=["time", "lev"], name="ng", uxgrid=g
    )
    return das


def main():
    for mesh in MESHES:
        for history in ((), ("edge_node_connectivity", "face_edge_connectivity", "edge_face_connectivity", "node_face_connectivity", "face_areas")):
            tag = "%s/hist%d" % (mesh, len(history))
            g = fresh(mesh, history)
            nf, nn = g.n_face, g.n_node

            # ---------------- Grid.isel ----------------
            face_sel = {
                "unsorted": [3, 0, 2],
                "scalar": 1,
                "npscalar": np.int32(2),
                "single": [nf - 1],
                "all": np.arange(nf),
                "rev": np.arange(nf)[::-1],
                "xrda": xr.DataArray(np.array([2, 1]), dims=["n_face"]),
                "slice-like": np.arange(0, nf, 3),
                "dup": [1, 1, 0],
                "neg": [-1],
                "empty": [],
                "float": [0.0, 2.0],
            }
            for k, sel in face_sel.items():
                gg = fresh(mesh, history)
                attempt("%s Grid.isel n_face %s" % (tag, k), lambda: gg.isel(n_face=sel), dig_grid)
            for k, sel in {"unsorted": [5, 0, 3], "scalar": 2, "single": [nn - 1], "all": np.arange(nn)}.items():
                gg = fresh(mesh, history)
                attempt("%s Grid.isel n_node %s" % (tag, k), lambda: gg.isel(n_node=sel), dig_grid)
            for k, sel in {"unsorted": [4, 0, 2], "scalar": 1, "single": [0]}.items():
                gg = fresh(mesh, history)
                attempt("%s Grid.isel n_edge %s" % (tag, k), lambda: gg.isel(n_edge=sel), dig_grid)
            gg = fresh(mesh, history)
            attempt("%s Grid.isel two dims" % tag, lambda: gg.isel(n_face=[0], n_node=[0]), dig_grid)
            attempt("%s Grid.isel none" % tag, lambda: gg.isel(), dig_grid)
            attempt("%s Grid.isel bad dim" % tag, lambda: gg.isel(time=[0]), dig_grid)
            # slice of a slice (the source already carries subgrid_* variables)
            sub = gg.isel(n_face=[3, 0, 2, 1])
            attempt("%s Grid.isel slice of slice" % tag, lambda: sub.isel(n_face=[2, 0]), dig_grid)
            attempt("%s Grid.isel node slice of slice" % tag, lambda: sub.isel(n_node=[1]), dig_grid)
            # the source is left alone
            print("-- %s source after slicing" % tag)
            print(dig_ds(gg._ds))

            # ---------------- subset / cross-section on grids ----------------
            gg = fresh(mesh, history)
            attempt("%s bbox" % tag, lambda: gg.subset.bounding_box((-60, 60), (-40, 40)), dig_grid)
            attempt("%s bbox antimeridian" % tag, lambda: gg.subset.bounding_box((170, -170), (-80, 80), element="nodes"), dig_grid)
            attempt("%s bcircle edges" % tag, lambda: gg.subset.bounding_circle((10.0, 5.0), 40.0, element="edge centers"), dig_grid)
            attempt("%s nn" % tag, lambda: gg.subset.nearest_neighbor((0.0, 0.0), 3, element="face centers"), dig_grid)
            attempt("%s const lat 12.5" % tag, lambda: gg.cross_section.constant_latitude(12.5), dig_grid)

            # ---------------- UxDataArray.isel ----------------
            g = fresh(mesh, history)
            das = make_das(g)
            for dname, da in das.items():
                t = "%s da=%s" % (tag, dname)
                attempt(t + " n_face unsorted", lambda: da.isel(n_face=[3, 0, 2]), lambda r: dig_da(r, derive=(dname == "face1")))
                attempt(t + " n_face scalar", lambda: da.isel(n_face=1), dig_da)
                attempt(t + " n_face all", lambda: da.isel(n_face=np.arange(nf)), dig_da)
                attempt(t + " n_node list", lambda: da.isel(n_node=[5, 0]), dig_da)
                attempt(t + " n_node scalar", lambda: da.isel(n_node=nn - 1), dig_da)
                attempt(t + " n_edge list", lambda: da.isel(n_edge=[4, 1]), dig_da)
                attempt(t + " indexers dict", lambda: da.isel({"n_face": [2, 1]}), dig_da)
                attempt(t + " indexers dict + kw", lambda: da.isel({"n_face": [2, 1]}, n_node=[0]), dig_da)
                attempt(t + " two grid dims", lambda: da.isel(n_face=[0], n_edge=[0]), dig_da)
                attempt(t + " three grid dims", lambda: da.isel(n_face=[0], n_edge=[0], n_node=[0]), dig_da)
                attempt(t + " grid + other dim", lambda: da.isel(n_face=[1, 0], time=0), dig_da)
                attempt(t + " grid dim drop=True", lambda: da.isel(n_face=[1, 0], drop=True), dig_da)
                attempt(t + " ignore_grid n_face", lambda: da.isel(n_face=[3, 0, 2], ignore_grid=True), dig_da)
                attempt(t + " ignore_grid two dims", lambda: da.isel(n_face=[1], n_node=[2], ignore_grid=True), dig_da)
                attempt(t + " time=0", lambda: da.isel(time=0), dig_da)
                attempt(t + " time=0 drop", lambda: da.isel(time=0, drop=True), dig_da)
                attempt(t + " lev slice", lambda: da.isel(lev=slice(0, 2)), dig_da)
                attempt(t + " missing dim raise", lambda: da.isel(bogus=0), dig_da)
                attempt(t + " missing dim ignore", lambda: da.isel(bogus=0, missing_dims="ignore"), dig_da)
                attempt(t + " no indexers", lambda: da.isel(), dig_da)
                attempt(t + " n_face bad type", lambda: da.isel(n_face="x"), dig_da)
                attempt(t + " n_face out of range", lambda: da.isel(n_face=[nf + 5]), dig_da)
                # through the private entry point, with grids sliced in each of the three ways
                for k, sg in (("f", g.isel(n_face=[2, 0])), ("n", g.isel(n_node=[1])), ("e", g.isel(n_edge=[0]))):
                    attempt(t + " _slice_from_grid " + k, lambda: da._slice_from_grid(sg), dig_da)
                # accessors built on isel
                attempt(t + " subset bbox", lambda: da.subset.bounding_box((-60, 60), (-40, 40)), dig_da)
                attempt(t + " subset nn", lambda: da.subset.nearest_neighbor((0.0, 0.0), 2, element="nodes"), dig_da)
                attempt(t + " cross-section", lambda: da.cross_section.constant_latitude(12.5), dig_da)
                # the source is left alone; the result does not alias the source's attrs
                r = da.isel(n_face=[0]) if "n_face" in da.dims else None
                print("   src data=%s attrs=%s same_attrs_obj=%s" % (h(da.values), dict(da.attrs), None if r is None else (r.attrs is da.attrs)))


main()


def direct():
    """the three private entry points of uxarray/grid/slice.py, called directly"""
    from uxarray.grid.slice import _slice_node_indices, _slice_edge_indices, _slice_face_indices

    for mesh in MESHES:
        for history in ((), ("edge_node_connectivity",), ("face_edge_connectivity", "node_face_connectivity")):
            tag = "direct %s/hist%d" % (mesh, len(history))
            for fname, fn in (("node", _slice_node_indices), ("edge", _slice_edge_indices), ("face", _slice_face_indices)):
                for k, sel in {
                    "arr": np.array([2, 0, 3]),
                    "arr32": np.array([1, 3], dtype=np.int32),
                    "scalar": 0,
                    "2d": np.array([[0, 1], [2, 3]]),
                    "bool": np.array([True, False, True]),
                    "tuple": (1, 2),
                    "xr": xr.DataArray([3, 1], dims=["x"]),
                }.items():
                    g = fresh(mesh, history)
                    attempt("%s %s %s" % (tag, fname, k), lambda: fn(g, sel), lambda r: dig_grid(r, derive=(k == "arr")))
                g = fresh(mesh, history)
                attempt("%s %s exclusive" % (tag, fname), lambda: fn(g, [0], inclusive=False), dig_grid)
                attempt("%s %s inclusive=0" % (tag, fname), lambda: fn(g, [0], inclusive=0), dig_grid)
                attempt("%s %s inclusive=None" % (tag, fname), lambda: fn(g, [0], inclusive=None), dig_grid)
                # attrs of the re-indexed connectivity: values are carried over as the same objects or not
                r = fn(g, [1, 0])
                for name in sorted(r._ds.variables):
                    if "_connectivity" in name:
                        src = g._ds[name]
                        print("    conn %s attrs=%s flags=%s" % (name, {k: (type(v).__name__, v is src.attrs.get(k)) for k, v in sorted(r._ds[name].attrs.items())}, r._ds[name].values.flags.writeable))


direct()
