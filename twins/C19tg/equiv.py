import sys, os

sys.path.insert(0, os.getcwd())

import hashlib
import warnings

import numpy as np
import xarray as xr

import uxarray
import uxarray as ux

assert os.path.abspath(uxarray.__file__).startswith(os.path.abspath(os.getcwd()) + os.sep), uxarray.__file__

from uxarray.constants import INT_DTYPE, INT_FILL_VALUE
from uxarray.io import _mpas
from uxarray.io._mpas import _read_mpas, _replace_padding, _replace_zeros, _to_zero_index

warnings.filterwarnings("ignore")


def h(a):
    a = np.ascontiguousarray(np.asarray(a))
    return f"{a.dtype}{a.shape}:{hashlib.sha1(a.tobytes()).hexdigest()[:16]}"


def ds_digest(ds):
    lines = []
    for name in ds.variables:  # order matters
        v = ds[name]
        lines.append(f"  {name} dims={v.dims} {h(v.values)} attrs={sorted((k, repr(x)) for k, x in v.attrs.items())}")
    lines.append(f"  attrs={sorted((k, repr(x)) for k, x in ds.attrs.items())}")
    return "\n".join(lines)


def shares(ds_out, ds_in):
    out = []
    for a in ds_out.variables:
        for b in ds_in.variables:
            if np.shares_memory(ds_out[a].values, ds_in[b].values):
                out.append((a, b))
    return out


def synthetic(idx_dtype, garbage, n_dtype=np.int32, with_optional=True, attrs=None):
    """A tiny hand-made MPAS-like dataset (4 cells of 3,4,5,6 'edges', 7 vertices, 9 edges).

    The numbers are not a real mesh: only the readers are under test."""
    rng = np.random.default_rng(7)
    n_cell, n_vert, n_edge, max_e = 4, 7, 9, 6
    n_edges_on_cell = np.array([3, 4, 5, 6], dtype=n_dtype)
    voc = rng.integers(1, n_vert + 1, size=(n_cell, max_e)).astype(idx_dtype)
    eoc = rng.integers(1, n_edge + 1, size=(n_cell, max_e)).astype(idx_dtype)
    coc = rng.integers(0, n_cell + 1, size=(n_cell, max_e)).astype(idx_dtype)  # zeros = missing
    if garbage == "zeros":
        for i, n in enumerate(n_edges_on_cell):
            voc[i, n:] = 0
            eoc[i, n:] = 0
            coc[i, n:] = 0
    elif garbage == "last":
        for i, n in enumerate(n_edges_on_cell):
            voc[i, n:] = voc[i, n - 1]
            eoc[i, n:] = eoc[i, n - 1]
    # garbage == "random": keep the random in-range values in the padding
    cov = rng.integers(0, n_cell + 1, size=(n_vert, 3)).astype(idx_dtype)
    eov = rng.integers(0, n_edge + 1, size=(n_vert, 3)).astype(idx_dtype)
    voe = rng.integers(0, n_vert + 1, size=(n_edge, 2)).astype(idx_dtype)
    coe = rng.integers(0, n_cell + 1, size=(n_edge, 2)).astype(idx_dtype)

    def ll(n):
        return rng.uniform(0, 2 * np.pi, n), rng.uniform(-np.pi / 2, np.pi / 2, n)

    d = {}
    lon, lat = ll(n_vert)
    d["lonVertex"], d["latVertex"] = ("nVertices", lon), ("nVertices", lat)
    lon, lat = ll(n_cell)
    d["lonCell"], d["latCell"] = ("nCells", lon), ("nCells", lat)
    d["verticesOnCell"] = (("nCells", "maxEdges"), voc)
    d["nEdgesOnCell"] = ("nCells", n_edges_on_cell)
    d["cellsOnVertex"] = (("nVertices", "vertexDegree"), cov)
    if with_optional:
        for nm, n, dim in (("Vertex", n_vert, "nVertices"), ("Cell", n_cell, "nCells"), ("Edge", n_edge, "nEdges")):
            for c in "xyz":
                d[c + nm] = (dim, rng.normal(size=n))
        lon, lat = ll(n_edge)
        d["lonEdge"], d["latEdge"] = ("nEdges", lon), ("nEdges", lat)
        d["verticesOnEdge"] = (("nEdges", "TWO"), voe)
        d["cellsOnEdge"] = (("nEdges", "TWO"), coe)
        d["edgesOnCell"] = (("nCells", "maxEdges"), eoc)
        d["edgesOnVertex"] = (("nVertices", "vertexDegree"), eov)
        d["cellsOnCell"] = (("nCells", "maxEdges"), coc)
        d["dvEdge"] = ("nEdges", rng.uniform(1, 2, n_edge))
        d["dcEdge"] = ("nEdges", rng.uniform(1, 2, n_edge))
        d["areaCell"] = ("nCells", rng.uniform(1, 2, n_cell))
        d["areaTriangle"] = ("nVertices", rng.uniform(1, 2, n_vert))
    ds = xr.Dataset(d)
    if attrs is not None:
        ds.attrs = attrs
    return ds


def run_reader(tag, ds):
    for use_dual in (False, True):
        before = ds_digest(ds)
        attrs_obj = ds.attrs
        attrs_before = repr(sorted(ds.attrs.items(), key=lambda kv: kv[0]))
        try:
            out, dims = _read_mpas(ds, use_dual=use_dual)
        except Exception as e:  # noqa
            print(f"[{tag} dual={use_dual}] EXC {type(e).__name__}: {e}")
            continue
        print(f"[{tag} dual={use_dual}] dims={dims}")
        print(ds_digest(out))
        print("  input unchanged:", ds_digest(ds) == before, "| attrs unchanged:",
              repr(sorted(ds.attrs.items(), key=lambda kv: kv[0])) == attrs_before)
        print("  out.attrs is in.attrs:", out.attrs is attrs_obj, "| shared buffers:", shares(out, ds))
        # writing into the result must not reach the input
        for name in ("face_node_connectivity", "node_face_connectivity"):
            out[name].values[...] = 12345
        out.attrs["added_by_caller"] = 1
        print("  input unchanged after edits of the result:", ds_digest(ds) == before,
              "added_by_caller" in ds.attrs)


# 1. the in-place helpers themselves, incl. their aliasing contract
print("== helpers")
for n_valid in ([3, 4, 5, 6], [0, 6, 1, 2], [6, 6, 6, 6], [0, 0, 0, 0], [7, -1, 3, 9]):
    arr = np.arange(1, 25, dtype=INT_DTYPE).reshape(4, 6)
    res = _replace_padding(arr, np.array(n_valid, dtype=INT_DTYPE))
    print("pad", n_valid, res is arr, res.tolist())
arr = np.zeros((0, 6), dtype=INT_DTYPE)
res = _replace_padding(arr, np.zeros(0, dtype=INT_DTYPE))
print("pad empty", res is arr, res.shape, res.dtype)
arr = np.array([[0, 1, 2], [INT_FILL_VALUE, 0, 5]], dtype=INT_DTYPE)
res = _replace_zeros(arr)
print("zeros", res is arr, res.tolist())
res2 = _to_zero_index(res)
print("zero-index", res2 is arr, res2.tolist())
try:
    _replace_padding(np.arange(6, dtype=INT_DTYPE), np.array([1], dtype=INT_DTYPE))
except Exception as e:  # noqa
    print("pad 1-d EXC", type(e).__name__, e)
try:
    _replace_padding(np.ones((4, 6), dtype=INT_DTYPE), np.array([1, 2, 3], dtype=INT_DTYPE))
except Exception as e:  # noqa
    print("pad mismatch EXC", type(e).__name__, e)

# 2. synthetic MPAS datasets
print("== synthetic")
for idx_dtype in (np.int32, np.int64, np.float64):
    for garbage in ("zeros", "last", "random"):
        run_reader(f"syn {np.dtype(idx_dtype).name} {garbage}",
                   synthetic(idx_dtype, garbage, attrs={"sphere_radius": 2.0, "on_a_sphere": "YES"}))
run_reader("syn minimal", synthetic(np.int32, "zeros", with_optional=False))
run_reader("syn n_dtype int64 no attrs", synthetic(np.int32, "last", n_dtype=np.int64))

# missing variables: same exception
for drop in ("nEdgesOnCell", "verticesOnCell", "cellsOnVertex"):
    run_reader(f"syn without {drop}", synthetic(np.int32, "zeros").drop_vars(drop))

# already INT_DTYPE input: np.array(..) must still copy
ds = synthetic(INT_DTYPE, "last")
run_reader("syn intp", ds)

# 3. real files through the public API
print("== files")
for path in ("test/meshfiles/mpas/QU/mesh.QU.1920km.151026.nc", "test/meshfiles/mpas/QU/oQU480.231010.nc"):
    if not os.path.exists(path) or os.path.getsize(path) == 0:
        print("missing or empty", path)
        continue
    with xr.open_dataset(path) as raw:
        raw = raw.load()
    run_reader(os.path.basename(path), raw)
    for use_dual in (False, True):
        before = ds_digest(raw)
        g = ux.Grid.from_dataset(raw, use_dual=use_dual)
        print(f"[Grid {os.path.basename(path)} dual={use_dual}] n_face={g.n_face} n_node={g.n_node} "
              f"n_max={g.n_max_face_nodes} fnc={h(g.face_node_connectivity.values)}")
        for name in ("edge_node_connectivity", "face_edge_connectivity", "edge_face_connectivity",
                     "node_face_connectivity", "face_face_connectivity"):
            try:
                print("   ", name, h(getattr(g, name).values))
            except Exception as e:  # noqa
                print("   ", name, "EXC", type(e).__name__)
        c = g.copy()
        c.face_node_connectivity.values[0, 0] = 4242
        c._ds.attrs["x"] = 1
        print("    copy independent:", g.face_node_connectivity.values[0, 0] != 4242, "x" not in g._ds.attrs,
              "| input unchanged:", ds_digest(raw) == before)
