import sys, os; sys.path.insert(0, os.getcwd())
import hashlib
import warnings

warnings.filterwarnings("ignore")

import numpy as np
import xarray as xr
import uxarray as ux
from uxarray.constants import INT_FILL_VALUE, INT_DTYPE
from uxarray.grid.connectivity import (
    close_face_nodes,
    _build_edge_node_connectivity,
    _build_face_edge_connectivity,
)

assert os.path.abspath(ux.__file__).startswith(os.path.abspath(os.getcwd()) + os.sep), ux.__file__

MPAS = "test/meshfiles/mpas/QU/mesh.QU.1920km.151026.nc"  # ships its own edge tables
MIXED = "test/meshfiles/exodus/mixed/mixed.exo"  # triangles + quads (fill values)
QUADHEX = "test/meshfiles/ugrid/quad-hexagon/grid.nc"  # 4 faces, quads + hexagons
CSNE8 = "test/meshfiles/scrip/outCSne8/outCSne8.nc"
GEOFLOW = "test/meshfiles/ugrid/geoflow-small/grid.nc"
F = INT_FILL_VALUE


def h(a):
    a = np.asarray(a)
    flags = "C" if a.flags.c_contiguous else ("F" if a.flags.f_contiguous else "-")
    a = np.ascontiguousarray(a)
    return f"{a.dtype}{list(a.shape)}{flags}:{hashlib.sha1(a.tobytes()).hexdigest()[:12]}"


def small(a):
    a = np.asarray(a)
    return a.tolist() if a.size <= 60 else ""


def run(label, fn):
    try:
        print(label, "->", fn())
    except Exception as e:  # noqa
        print(label, "-> EXC", type(e).__name__, str(e)[:300])


# ---------------------------------------------------------------- builders, directly
rng = np.random.default_rng(11)


def random_faces(n_face, n_max, n_node):
    fn = np.full((n_face, n_max), F, dtype=INT_DTYPE)
    for i in range(n_face):
        k = rng.integers(3, n_max + 1)
        fn[i, :k] = rng.choice(n_node, size=k, replace=False)
    return fn


cases = {
    "one_tri": np.array([[0, 1, 2]], dtype=INT_DTYPE),
    "one_tri_padded": np.array([[0, 1, 2, F, F]], dtype=INT_DTYPE),
    "two_quads": np.array([[0, 1, 2, 3], [1, 4, 5, 2]], dtype=INT_DTYPE),
    "quad_tri": np.array([[0, 1, 2, 3], [1, 4, 2, F]], dtype=INT_DTYPE),
    "tri_first": np.array([[1, 4, 2, F], [0, 1, 2, 3]], dtype=INT_DTYPE),
    "hex_quad_tri": np.array(
        [[0, 1, 2, 3, 4, 5], [5, 4, 6, 7, F, F], [7, 6, 8, F, F, F]], dtype=INT_DTYPE
    ),
    "all_padded": np.array([[0, 1, 2, F], [2, 1, 3, F]], dtype=INT_DTYPE),
    "dup_face": np.array([[0, 1, 2, F], [0, 1, 2, F], [2, 1, 0, F]], dtype=INT_DTYPE),
    "int32": np.array([[0, 1, 2, 3], [1, 4, 5, 2]], dtype=np.int32),
    "fortran": np.asfortranarray(np.array([[0, 1, 2, 3], [1, 4, 2, F]], dtype=INT_DTYPE)),
    "strided": np.array([[0, 9, 1, 9, 2, 9, 3, 9], [1, 9, 4, 9, 2, 9, F, 9]], dtype=INT_DTYPE)[:, ::2],
    "empty": np.zeros((0, 4), dtype=INT_DTYPE),
    "rand_small": random_faces(7, 5, 12),
    "rand_mid": random_faces(60, 8, 40),
    "rand_big": random_faces(500, 6, 300),
    "high_node_ids": np.array([[10**12, 5, 10**15, F], [5, 10**12, 7, 8]], dtype=INT_DTYPE),
}
for name, fn in cases.items():
    before = fn.copy()
    n_face, n_max = fn.shape

    def closed():
        c = close_face_nodes(fn, n_face, n_max)
        return f"{h(c)} {small(c)} shares={np.shares_memory(c, fn)} writeable={c.flags.writeable}"

    run(f"close_face_nodes[{name}]", closed)

    def built():
        en, inv, mask = _build_edge_node_connectivity(fn, n_face, n_max)
        fe = _build_face_edge_connectivity(inv, n_face, n_max)
        return (
            f"edge_nodes={h(en)} {small(en)} inverse={h(inv)} {small(inv)} "
            f"mask={h(mask)} {small(mask)} face_edges={h(fe)} "
            f"fe_is_view={np.shares_memory(fe, inv)}"
        )

    run(f"_build_edge_node_connectivity[{name}]", built)
    print(f"  input unchanged[{name}]:", np.array_equal(before, fn), h(fn))

run("close_face_nodes wrong n_face", lambda: h(close_face_nodes(cases["two_quads"], 3, 4)))
run("close_face_nodes wrong n_max", lambda: h(close_face_nodes(cases["two_quads"], 2, 5)))
run("close_face_nodes float", lambda: h(close_face_nodes(cases["two_quads"].astype(float), 2, 4)))
run("build wrong n_max", lambda: [h(x) for x in _build_edge_node_connectivity(cases["two_quads"], 2, 3)])


# ---------------------------------------------------------------- through Grid and its subsets
def grid_digest(g):
    out = [f"nf={g.n_face} nn={g.n_node} ne={g.n_edge}"]
    for name in ("subgrid_face_indices", "subgrid_node_indices", "subgrid_edge_indices"):
        out.append(f"{name}={h(g._ds[name].values) if name in g._ds else None}")
    for name in (
        "face_node_connectivity",
        "edge_node_connectivity",
        "face_edge_connectivity",
        "edge_face_connectivity",
        "node_face_connectivity",
        "face_face_connectivity",
        "node_lon",
        "node_lat",
        "edge_node_z",
        "edge_lon",
        "edge_lat",
        "edge_node_distances",
        "edge_face_distances",
        "face_areas",
    ):
        try:
            v = getattr(g, name)
            attrs = {
                k: (h(a) if isinstance(a, np.ndarray) else a) for k, a in v.attrs.items()
            }
            out.append(f"{name}={h(v.values)}{list(v.dims)}{attrs}")
        except Exception as e:  # noqa
            out.append(f"{name}=EXC {type(e).__name__}: {e}")
    out.append("vars=" + ",".join(map(str, g._ds.variables)))
    return "\n      ".join(out)


def show(r):
    if isinstance(r, tuple):
        return "(" + ", ".join(show(x) for x in r) + ")"
    if isinstance(r, ux.Grid):
        return "Grid: " + grid_digest(r)
    if isinstance(r, (ux.UxDataArray, xr.DataArray)):
        s = f"{type(r).__name__} name={r.name!r} dims={r.dims} data={h(r.values)}"
        if getattr(r, "uxgrid", None) is not None:
            s += " / " + grid_digest(r.uxgrid)
        return s
    if isinstance(r, np.ndarray):
        return f"ndarray {h(r)} {small(r)}"
    return repr(r)


for path in (QUADHEX, MIXED, MPAS, CSNE8, GEOFLOW):
    for history in ("fresh", "edges_built"):
        print("=" * 20, path, history)
        g = ux.open_grid(path)
        if history == "edges_built":
            _ = g.edge_node_connectivity, g.face_edge_connectivity
            _ = g.edge_face_connectivity, g.node_face_connectivity, g.edge_lon
        nf, nn = g.n_face, g.n_node
        ne = g.n_edge
        rng = np.random.default_rng(5)
        fd = ux.UxDataArray(rng.random((2, nf)), dims=["t", "n_face"], name="fd", uxgrid=g)
        nd = ux.UxDataArray(rng.random(nn), dims=["n_node"], name="nd", uxgrid=g)
        ed = ux.UxDataArray(np.arange(ne) * 1.5, dims=["n_edge"], name="ed", uxgrid=g)

        sels = [
            ("n_face", [0]),
            ("n_face", 2),
            ("n_face", [nf - 1, 0, 2]),
            ("n_face", np.arange(nf)),
            ("n_face", np.arange(nf)[::-1][: max(2, nf // 3)]),
            ("n_node", [0]),
            ("n_node", [nn - 1, 3]),
            ("n_node", np.arange(nn)),
            ("n_edge", 1),
            ("n_edge", [ne - 1, 0]),
            ("n_edge", np.arange(ne)),
        ]
        for dim, sel in sels:
            run(f"grid.isel({dim}={sel!r:.30})", lambda: show(g.isel(**{dim: sel})))
            for name, v in (("fd", fd), ("nd", nd), ("ed", ed)):
                run(f"{name}.isel({dim}={sel!r:.30})", lambda: show(v.isel(**{dim: sel})))
        for element in ("nodes", "face centers", "edge centers"):
            run(f"bbox {element}", lambda: show(g.subset.bounding_box((-40, 40), (-30, 30), element)))
            run(f"bbox anti {element}", lambda: show(g.subset.bounding_box((160, -160), (-30, 30), element)))
            run(f"circle {element}", lambda: show(g.subset.bounding_circle((0.0, 0.0), 25.0, element)))
            run(f"knn {element}", lambda: show(ed.subset.nearest_neighbor((3.0, 2.0), 4, element)))
        for lat in (0.3, -42.0, float(g.node_lat.values[0]), 89.9999):
            run(f"faces {lat!r}", lambda: show(g.get_faces_at_constant_latitude(lat)))
            run(f"xsec {lat!r}", lambda: show(g.cross_section.constant_latitude(lat, True)))
            run(f"fd xsec {lat!r}", lambda: show(fd.cross_section.constant_latitude(lat)))
        # slicing a subset again: its edge tables are rebuilt from the re-indexed faces
        sub = g.isel(n_face=np.arange(nf)[::-1][: max(3, nf // 2)])
        _ = sub.edge_node_connectivity, sub.face_edge_connectivity
        run("sub.isel(n_edge)", lambda: show(sub.isel(n_edge=[0, sub.n_edge - 1])))
        run("sub.isel(n_node)", lambda: show(sub.isel(n_node=[1])))
        print("source after:", grid_digest(g))
