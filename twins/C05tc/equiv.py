"""Equivalence digest for property C05 (face areas). Run with cwd = worktree root.

Prints bit-exact digests (float.hex / sha256 of raw bytes + dtype + shape) of
everything the area code computes, on clean and patched trees alike.

Gaussian order 10 is deliberately left out: its weight table has 11 entries
for 10 points, so the (unchanged) quadrature loop reads one element past the
end of the point array under numba (no bounds checking) - the result depends
on whatever the allocator left there, not on the code under test.
"""
import sys, os

sys.path.insert(0, os.getcwd())
import hashlib
import warnings

warnings.simplefilter("ignore")
import numpy as np
import uxarray as ux

assert os.path.abspath(ux.__file__).startswith(os.path.abspath(os.getcwd()) + os.sep)

from uxarray.grid import area as A
from uxarray.constants import INT_DTYPE, INT_FILL_VALUE

TRI_ORDERS = [1, 4, 8, 10, 12]
GAUSS_ORDERS = [1, 2, 3, 4, 5, 6, 7, 8, 9]


def dig(a):
    a = np.asarray(a)
    return "%s%s:%s" % (
        a.dtype,
        a.shape,
        hashlib.sha256(np.ascontiguousarray(a).tobytes()).hexdigest()[:20],
    )


def fx(v):
    return "%s<%s>" % (float(v).hex(), type(v).__name__)


def show(label, fn):
    try:
        res = fn()
    except Exception as e:  # noqa
        first = str(e).strip().splitlines()[0] if str(e).strip() else ""
        print(label, "->", "EXC", type(e).__name__, first[:90])
        return None
    print(label, "->", res)
    return res


# --------------------------------------------------------------- tables
print("== quadrature tables")
for o in TRI_ORDERS:
    dG, dW = A.get_tri_quadratureDG(o)
    print("tri", o, dig(dG), dig(dW), fx(dW.sum()))
for o in GAUSS_ORDERS + [10]:
    dG, dW = A.get_gauss_quadratureDG(o)
    print("gauss", o, dig(dG), dig(dW), fx(dW.sum()))

# --------------------------------------------------------------- jacobians
print("== jacobians")
rng = np.random.default_rng(5)
for k in range(12):
    p = rng.normal(size=(3, 3))
    p /= np.linalg.norm(p, axis=1)[:, None]
    if k == 10:  # pole + antimeridian straddling triangle
        p = np.array([[0.0, 0.0, 1.0], [-0.9, 0.01, 0.4], [-0.9, -0.01, 0.4]])
        p /= np.linalg.norm(p, axis=1)[:, None]
    if k == 11:  # degenerate: repeated corner
        p[2] = p[1]
    for dA, dB in [(0.0, 0.0), (0.5, 0.25), (1.0, 0.0), (0.2, 0.8), (1 / 3, 1 / 3)]:
        j1 = A.calculate_spherical_triangle_jacobian(p[0], p[1], p[2], dA, dB)
        j2 = A.calculate_spherical_triangle_jacobian_barycentric(
            p[0], p[1], p[2], dA, dB
        )
        print(k, dA.hex() if isinstance(dA, float) else dA, fx(j1), fx(j2))
# float32 nodes and python-list nodes
p32 = p.astype(np.float32)
print("f32", fx(A.calculate_spherical_triangle_jacobian(p32[0], p32[1], p32[2], 0.3, 0.3)),
      fx(A.calculate_spherical_triangle_jacobian_barycentric(p32[0], p32[1], p32[2], 0.3, 0.3)))
# origin-collapsing point -> division by zero path
z3 = np.zeros(3)
with np.errstate(all="ignore"):
    show("zero-nodes", lambda: (fx(A.calculate_spherical_triangle_jacobian(z3, z3, z3, 0.5, 0.5)),
                                fx(A.calculate_spherical_triangle_jacobian_barycentric(z3, z3, z3, 0.5, 0.5))))


# --------------------------------------------------------------- faces
def regular_face(n, clon, clat, radius_deg, phase=0.0):
    """n-gon around (clon, clat): returns lon/lat degrees and xyz."""
    cl, cp = np.deg2rad(clon), np.deg2rad(clat)
    c = np.array([np.cos(cl) * np.cos(cp), np.sin(cl) * np.cos(cp), np.sin(cp)])
    ref = np.array([0.0, 0.0, 1.0]) if abs(c[2]) < 0.9 else np.array([1.0, 0.0, 0.0])
    e1 = np.cross(ref, c)
    e1 /= np.linalg.norm(e1)
    e2 = np.cross(c, e1)
    r = np.deg2rad(radius_deg)
    ang = phase + 2 * np.pi * np.arange(n) / n
    pts = (
        np.cos(r) * c[None, :]
        + np.sin(r) * (np.cos(ang)[:, None] * e1[None, :] + np.sin(ang)[:, None] * e2[None, :])
    )
    lon = np.rad2deg(np.arctan2(pts[:, 1], pts[:, 0]))
    lat = np.rad2deg(np.arcsin(np.clip(pts[:, 2], -1, 1)))
    return lon, lat, pts


print("== calculate_face_area")
FACES = []
for n in range(3, 9):
    FACES.append(("n%d-mid" % n, regular_face(n, 37.0, 21.0, 12.0, 0.3)))
    FACES.append(("n%d-pole" % n, regular_face(n, 0.0, 90.0, 20.0, 0.1)))
    FACES.append(("n%d-spole" % n, regular_face(n, 10.0, -88.0, 7.0, 0.0)))
    FACES.append(("n%d-anti" % n, regular_face(n, 180.0, -35.0, 28.0, 0.7)))
FACES.append(("n4-big", regular_face(4, -100.0, 5.0, 32.0, 0.2)))
FACES.append(("n3-tiny", regular_face(3, 60.0, 60.0, 1e-3, 0.2)))

for name, (lon, lat, xyz) in FACES:
    zero = np.zeros_like(lon)
    for rule, orders in (("triangular", TRI_ORDERS), ("gaussian", GAUSS_ORDERS)):
        for o in orders:
            a_s, j_s = A.calculate_face_area(lon, lat, zero, rule, o, "spherical")
            a_c, j_c = A.calculate_face_area(
                xyz[:, 0].copy(), xyz[:, 1].copy(), xyz[:, 2].copy(), rule, o, "cartesian"
            )
            # rolled start corner
            a_r, j_r = A.calculate_face_area(
                np.roll(lon, 1), np.roll(lat, 1), zero, rule, o, "spherical"
            )
            print(name, rule, o, fx(a_s), fx(j_s), fx(a_c), fx(j_c), fx(a_r), fx(j_r))

print("== calculate_face_area defaults / odd inputs")
lon, lat, xyz = FACES[0][1]
zero = np.zeros_like(lon)
show("defaults", lambda: tuple(fx(v) for v in A.calculate_face_area(lon, lat, zero)))
show("bad-rule", lambda: A.calculate_face_area(lon, lat, zero, "simpson", 4, "spherical"))
show("other-coords-type", lambda: tuple(fx(v) for v in A.calculate_face_area(xyz[:, 0].copy(), xyz[:, 1].copy(), xyz[:, 2].copy(), "triangular", 4, "xyz")))
show("two-nodes", lambda: tuple(fx(v) for v in A.calculate_face_area(lon[:2], lat[:2], zero[:2], "triangular", 4, "spherical")))
show("two-nodes-g", lambda: tuple(fx(v) for v in A.calculate_face_area(lon[:2], lat[:2], zero[:2], "gaussian", 3, "cartesian")))
show("f32-sph", lambda: tuple(fx(v) for v in A.calculate_face_area(lon.astype(np.float32), lat.astype(np.float32), zero.astype(np.float32), "gaussian", 4, "spherical")))
show("f32-cart", lambda: tuple(fx(v) for v in A.calculate_face_area(xyz[:, 0].astype(np.float32), xyz[:, 1].astype(np.float32), xyz[:, 2].astype(np.float32), "triangular", 8, "cartesian")))
# integer inputs are rejected by numba typing (only the exception type is stable)
for ct in ("spherical", "cartesian"):
    try:
        A.calculate_face_area(np.array([0, 10, 5]), np.array([0, 0, 9]), np.array([0, 0, 0]), "triangular", 4, ct)
        print("int", ct, "no exception")
    except Exception as e:  # noqa
        print("int", ct, "EXC", type(e).__name__)
# nan corner
lon_n = lon.copy()
lon_n[1] = np.nan
show("nan-corner", lambda: tuple(fx(v) for v in A.calculate_face_area(lon_n, lat, zero, "triangular", 4, "spherical")))

# --------------------------------------------------------------- all faces
print("== get_all_face_area_from_coords (mixed sizes, fill values)")
node_lon, node_lat, node_xyz, rows, sizes = [], [], [], [], []
off = 0
for name, (lo, la, xyz) in FACES:
    n = len(lo)
    node_lon.append(lo)
    node_lat.append(la)
    node_xyz.append(xyz)
    row = np.full(8, INT_FILL_VALUE, dtype=INT_DTYPE)
    row[:n] = off + np.arange(n)
    rows.append(row)
    sizes.append(n)
    off += n
node_lon = np.concatenate(node_lon)
node_lat = np.concatenate(node_lat)
node_xyz = np.concatenate(node_xyz)
face_nodes = np.array(rows, dtype=INT_DTYPE)
sizes = np.array(sizes, dtype=INT_DTYPE)
perm = rng.permutation(len(node_lon))  # renumber nodes
inv = np.empty_like(perm)
inv[perm] = np.arange(len(perm))
face_nodes_p = np.where(face_nodes == INT_FILL_VALUE, INT_FILL_VALUE, inv[np.where(face_nodes == INT_FILL_VALUE, 0, face_nodes)]).astype(INT_DTYPE)

for rule, orders in (("triangular", TRI_ORDERS), ("gaussian", [1, 4, 9])):
    for o in orders:
        a1, j1 = A.get_all_face_area_from_coords(node_lon, node_lat, np.zeros_like(node_lon), face_nodes, sizes, 2, rule, o, "spherical")
        a2, j2 = A.get_all_face_area_from_coords(node_xyz[:, 0].copy(), node_xyz[:, 1].copy(), node_xyz[:, 2].copy(), face_nodes, sizes, 3, rule, o, "cartesian")
        a3, j3 = A.get_all_face_area_from_coords(node_lon[perm], node_lat[perm], np.zeros_like(node_lon), face_nodes_p, sizes, 2, rule, o, "spherical")
        print(rule, o, dig(a1), dig(j1), dig(a2), dig(j2), dig(a3), dig(j3), fx(a1.sum()))
a, j = A.get_all_face_area_from_coords(node_lon, node_lat, np.zeros_like(node_lon), face_nodes, sizes, 2)
print("defaults", dig(a), dig(j), " ".join(float(v).hex() for v in a[:6]))
show("dim2-cartesian", lambda: tuple(dig(v) for v in A.get_all_face_area_from_coords(node_xyz[:, 0].copy(), node_xyz[:, 1].copy(), node_xyz[:, 2].copy(), face_nodes, sizes, 2, "triangular", 4, "cartesian")))
show("bad-rule-all", lambda: A.get_all_face_area_from_coords(node_lon, node_lat, np.zeros_like(node_lon), face_nodes, sizes, 2, "nope", 4, "spherical"))
show("no-faces", lambda: tuple(dig(v) for v in A.get_all_face_area_from_coords(node_lon, node_lat, np.zeros_like(node_lon), face_nodes[:0], sizes[:0], 2, "triangular", 4, "spherical")))


# --------------------------------------------------------------- Grid level
def pair(fn):
    return lambda: tuple(dig(v) for v in fn())


def grid_report(label, make):
    print("-- grid", label)
    g = make()
    print(" preloaded face_areas", "face_areas" in g._ds)
    fa = show(" face_areas", lambda: g.face_areas)
    if fa is not None:
        print(" face_areas", type(fa).__name__, fa.dims, dig(fa.values), sorted(fa.attrs.items()))
        print(" cached-same-data", g.face_areas.values is fa.values or np.shares_memory(g.face_areas.values, fa.values), "in _ds", "face_areas" in g._ds)
    fj = g.__dict__.get("_face_jacobian")
    print(" _face_jacobian", None if fj is None else dig(fj))
    try:
        a, j = g.compute_face_areas()
        print(" fresh==cached", fa is not None and np.array_equal(a, fa.values), dig(a), dig(j), type(a).__name__)
        print(" attrs-alias", a is g._face_areas, j is g._face_jacobian)
    except Exception as e:  # noqa
        print(" fresh EXC", type(e).__name__)
    if fa is not None:
        print(" cache untouched", dig(g.face_areas.values))
    for rule, orders in (("triangular", TRI_ORDERS), ("gaussian", [1, 3, 4, 8])):
        for o in orders:
            for latlon in (True, False):
                def run():
                    a, j = g.compute_face_areas(rule, o, latlon)
                    return dig(a), dig(j), fx(a.sum())
                show("  %s %s %s" % (rule, o, latlon), run)
            show("  total %s %s" % (rule, o), lambda: fx(g.calculate_total_face_area(rule, o)))
    show(" total-default", lambda: fx(g.calculate_total_face_area()))
    show(" bad-rule", lambda: g.compute_face_areas("simpson", 4))
    show(" bad-rule-total", lambda: g.calculate_total_face_area("simpson", 4))
    show(" kw", pair(lambda: g.compute_face_areas(order=8, latlon=False, quadrature_rule="triangular")))
    # latlon truthiness
    show(" latlon=0", pair(lambda: g.compute_face_areas("triangular", 4, 0)))
    show(" latlon=None", pair(lambda: g.compute_face_areas("triangular", 4, None)))
    show(" latlon='no'", pair(lambda: g.compute_face_areas("triangular", 4, "no")))
    return g


base = "test/meshfiles/"
grid_report("mpas-primal (5/6-gons, fill values)", lambda: ux.open_grid(base + "mpas/QU/mesh.QU.1920km.151026.nc", use_dual=False))
grid_report("mpas-dual", lambda: ux.open_grid(base + "mpas/QU/mesh.QU.1920km.151026.nc", use_dual=True))
grid_report("exodus-mixed (3/4)", lambda: ux.open_grid(base + "exodus/mixed/mixed.exo"))
grid_report("quad-hexagon (float32 lon/lat)", lambda: ux.open_grid(base + "ugrid/quad-hexagon/grid.nc"))
grid_report("CSne30", lambda: ux.open_grid(base + "ugrid/outCSne30/outCSne30.ug"))

# grids from vertices: cartesian input, lat/lon input, integer-valued coordinates
verts_xyz = [[[0.57735027, -5.77350269e-01, -0.57735027], [0.57735027, 5.77350269e-01, -0.57735027], [-0.57735027, 5.77350269e-01, -0.57735027]]]
grid_report("verts-xyz", lambda: ux.open_grid(verts_xyz, latlon=False))
verts_ll_int = [[[0, 0], [40, 0], [40, 30], [0, 30]], [[40, 0], [80, 0], [40, 30], [40, 30]]]
show("verts-ll-int", lambda: grid_report("verts-ll-int", lambda: ux.open_grid(np.array(verts_ll_int), latlon=True)) and "ok")
# synthetic grid: 3..8-gons with fill values (poles, antimeridian), original and renumbered
show("topo-mixed", lambda: grid_report("topo-mixed(3..8-gons, fill values)", lambda: ux.Grid.from_topology(node_lon, node_lat, face_nodes, fill_value=INT_FILL_VALUE)) and "ok")
show("topo-mixed-perm", lambda: grid_report("topo-mixed renumbered", lambda: ux.Grid.from_topology(node_lon[perm], node_lat[perm], face_nodes_p[::-1].copy(), fill_value=INT_FILL_VALUE)) and "ok")

# integer-typed node coordinates stored on a Grid -> astype(float) branch
print("-- int-typed coordinates")
g = ux.open_grid(np.array(verts_ll_int), latlon=True)
import xarray as xr

g._ds["node_lon"] = xr.DataArray(np.asarray(g.node_lon.values).round().astype(np.int64), dims=g._ds["node_lon"].dims)
g._ds["node_lat"] = xr.DataArray(np.asarray(g.node_lat.values).round().astype(np.int64), dims=g._ds["node_lat"].dims)
show("int-lonlat", lambda: tuple(dig(v) for v in g.compute_face_areas()))
show("int-lonlat-areas", lambda: dig(g.face_areas.values))

# setter + cache behaviour
print("-- setter")
g2 = ux.open_grid(base + "ugrid/quad-hexagon/grid.nc")
custom = xr.DataArray(np.arange(g2.n_face, dtype=float), dims=["n_face"])
g2.face_areas = custom
print("setter kept", np.array_equal(g2.face_areas.values, custom.values), hasattr(g2, "_face_jacobian") and g2.__dict__.get("_face_jacobian") is not None)
a, j = g2.compute_face_areas()
print("after compute", np.array_equal(g2.face_areas.values, custom.values), dig(a), dig(j))
show("setter-bad", lambda: setattr(g2, "face_areas", np.zeros(4)))
print("grid attrs", sorted(k for k in g2.__dict__ if "area" in k or "jacobian" in k))

# ---- compute_face_areas plumbing observed through a stand-in kernel
print("-- stand-in kernel (arguments handed over, jacobian check, attribute updates)")
import uxarray.grid.grid as GG

real_kernel = GG.get_all_face_area_from_coords
calls = []


def make_fake(areas, jac):
    def fake(x, y, z, face_nodes, n_nodes_per_face, dim, quadrature_rule, order, coords_type):
        calls.append((type(x).__name__, dig(x), dig(y), dig(z), dig(face_nodes), dig(n_nodes_per_face), dim, quadrature_rule, order, coords_type))
        return areas, jac
    return fake


def run_fake(g, areas, jac, *args, **kw):
    del calls[:]
    GG.get_all_face_area_from_coords = make_fake(areas, jac)
    try:
        before = (g.__dict__.get("_face_areas"), g.__dict__.get("_face_jacobian"))
        try:
            res = g.compute_face_areas(*args, **kw)
            print(" result", res[0] is areas, res[1] is jac)
        except Exception as e:  # noqa
            print(" EXC", type(e).__name__, str(e))
        print(" attrs updated", g.__dict__.get("_face_areas") is areas, g.__dict__.get("_face_jacobian") is jac,
              "kept-old", g.__dict__.get("_face_areas") is before[0])
        for c in calls:
            print(" call", c)
    finally:
        GG.get_all_face_area_from_coords = real_kernel


g3 = ux.open_grid(base + "exodus/mixed/mixed.exo")
nf = g3.n_face
ok_a, ok_j = np.ones(nf), np.linspace(0.0, 1.0, nf)
run_fake(g3, ok_a, ok_j)
run_fake(g3, ok_a, ok_j, "gaussian", 7, False)
neg_j = ok_j.copy()
neg_j[3] = -0.25
run_fake(g3, ok_a.copy(), neg_j, "triangular", 8)
nan_j = ok_j.copy()
nan_j[0] = np.nan
run_fake(g3, ok_a.copy(), nan_j)
run_fake(g3, np.zeros(0), np.zeros(0))
run_fake(g3, ok_a.copy(), np.array([-0.0, 0.0]))
# x/y/z handed over are the stored arrays themselves (no copy) when already float
del calls[:]
seen = []
GG.get_all_face_area_from_coords = lambda x, y, z, *a: (seen.append((x, y, z)) or (ok_a, ok_j))
try:
    g3.compute_face_areas(latlon=False)
    x, y, z = seen[-1]
    print(" cart alias", x is g3.node_x.data, y is g3.node_y.data, z is g3.node_z.data)
    g3.compute_face_areas(latlon=True)
    x, y, z = seen[-1]
    print(" sph alias", x is g3.node_lon.data, y is g3.node_lat.data, dig(z))
    t = g3.calculate_total_face_area("gaussian", 2)
    print(" total via stand-in", fx(t), type(t).__name__)
finally:
    GG.get_all_face_area_from_coords = real_kernel

# integer-typed Cartesian coordinates -> each array converted independently
g4 = ux.open_grid(base + "exodus/mixed/mixed.exo")
_ = g4.node_lon
g4._ds["node_x"] = xr.DataArray(np.round(g4.node_x.values * 100).astype(np.int64), dims=g4._ds["node_x"].dims)
g4._ds["node_z"] = xr.DataArray(g4.node_z.values.astype(np.float32), dims=g4._ds["node_z"].dims)
run_fake(g4, ok_a, ok_j, "triangular", 4, False)
show("int-x real kernel", pair(lambda: g4.compute_face_areas("triangular", 4, False)))
# empty coordinate arrays -> arr[0] fails
g5 = ux.open_grid(base + "ugrid/quad-hexagon/grid.nc")
g5._ds["node_lon"] = xr.DataArray(np.zeros(0), dims=["n_node_empty"])
show("empty-lon", lambda: g5.compute_face_areas())
print("DONE")
