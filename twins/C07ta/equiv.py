"""Equivalence digest for refactoring C07/a (_encode_exodus face counting / fill stripping).

Run with cwd = worktree root:  /venv/bin/python /tmp/refout/C07/a/equiv.py
"""
import sys, os; sys.path.insert(0, os.getcwd())
import warnings; warnings.filterwarnings("ignore")
import hashlib, tempfile
import numpy as np
import xarray as xr
import uxarray as ux
assert os.path.abspath(ux.__file__).startswith(os.getcwd() + os.sep), ux.__file__
from uxarray.constants import INT_FILL_VALUE as F, INT_DTYPE
from uxarray.io._exodus import _encode_exodus

VOLATILE_ATTRS = ("title",)  # contains the wall clock


def digest_ds(ds, label):
    print(f"== {label}")
    print("  dims", dict(ds.sizes))
    print("  attrs", {k: (type(v).__name__, v) for k, v in ds.attrs.items() if k not in VOLATILE_ATTRS},
          "has_title", "title" in ds.attrs)
    for name in ds.variables:
        v = ds[name]
        vals = np.asarray(v.values)
        if name == "qa_records":
            vals = vals[:2]  # rows 2,3 are date/time
        if vals.dtype.kind in "US" or vals.size <= 40:
            body = repr(vals.tolist())
        else:
            body = hashlib.sha1(np.ascontiguousarray(vals).tobytes()).hexdigest()
        print(f"  {name} dims={v.dims} dtype={vals.dtype} shape={vals.shape} "
              f"attrs={dict(v.attrs)} enc={sorted(v.encoding)} :: {body}")


def attempt(label, fn):
    try:
        out = fn()
    except Exception as e:  # digest the exception as well
        print(f"== {label}\n  RAISED {type(e).__name__}: {e!r}")
        return None
    digest_ds(out, label)
    return out


def faces_multiset(grid):
    """multiset of faces as rotation-normalised tuples of rounded (lon, lat) corners"""
    conn = grid.face_node_connectivity.values
    lon = np.round(grid.node_lon.values, 9) % 360
    lat = np.round(grid.node_lat.values, 9)
    out = []
    for row in conn:
        pts = [(float(lon[i]), float(lat[i])) for i in row if i != F]
        k = pts.index(min(pts))
        out.append(tuple(pts[k:] + pts[:k]))
    return sorted(out)


def make_grid(lon, lat, conn):
    return ux.Grid.from_topology(node_lon=np.asarray(lon, float), node_lat=np.asarray(lat, float),
                                 face_node_connectivity=np.asarray(conn), fill_value=F)


lon = [0., 10, 10, 0, 20, 20, 5, 15, 25, 30, 30, 25]
lat = [0., 0, 10, 10, 0, 10, 20, 20, 15, 10, 0, -5]

cases = {
    "mixed_3_4_interleaved": [[0, 1, 2, 3], [1, 4, 5, F], [3, 2, 6, F], [1, 4, 5, 2], [2, 5, 7, F]],
    "all_quads": [[0, 1, 2, 3], [1, 4, 5, 2]],
    "all_tris_padded_to_4": [[0, 1, 2, F], [1, 4, 5, F], [3, 2, 6, F]],
    "all_tris_exact": [[0, 1, 2], [1, 4, 5], [3, 2, 6]],
    "mixed_3_4_6": [[4, 10, 9, 8, 5, F], [0, 1, 2, 3, F, F], [1, 4, 5, F, F, F], [2, 5, 7, 6, F, F],
                    [4, 11, 10, 9, 8, 5], [3, 2, 6, F, F, F]],
    "single_face": [[0, 1, 2, 3]],
    "pentagon_and_tri_max8": [[0, 1, 4, 5, 2, F, F, F], [3, 2, 6, F, F, F, F, F], [0, 1, 4, 10, 9, 8, 5, 2]],
}

tmp = tempfile.mkdtemp()
for name, conn in cases.items():
    g = make_grid(lon, lat, conn)
    ds = attempt(f"{name}: to_xarray('exodus') fresh", lambda: g.to_xarray("exodus"))
    # derived quantities first
    g2 = make_grid(lon, lat, conn)
    _ = g2.edge_node_connectivity, g2.face_edge_connectivity, g2.node_x, g2.face_lon, g2.face_areas
    _ = g2.n_nodes_per_face
    attempt(f"{name}: to_xarray('exodus') after derived quantities", lambda: g2.to_xarray("exodus"))
    attempt(f"{name}: encode_as('Exodus')", lambda: g2.encode_as("Exodus"))
    if ds is not None:
        # direct re-open and via NetCDF
        r1 = ux.Grid.from_dataset(ds)
        print("  roundtrip direct same multiset:", faces_multiset(r1) == faces_multiset(g),
              "conn:", r1.face_node_connectivity.values.tolist())
        path = os.path.join(tmp, name + ".exo")
        ds.to_netcdf(path)
        r2 = ux.open_grid(path)
        print("  roundtrip file same multiset:", faces_multiset(r2) == faces_multiset(g),
              "conn:", r2.face_node_connectivity.values.tolist(), r2.face_node_connectivity.dtype)

# awkward connectivities fed straight to the encoder (not constructible as valid Grids)
def raw_ds(conn, with_xyz=False):
    conn = np.asarray(conn)
    d = xr.Dataset()
    n = 12
    d["node_lon"] = xr.DataArray(np.asarray(lon[:n], float), dims=["n_node"])
    d["node_lat"] = xr.DataArray(np.asarray(lat[:n], float), dims=["n_node"])
    if with_xyz:
        lo, la = np.deg2rad(d["node_lon"].values), np.deg2rad(d["node_lat"].values)
        d["node_x"] = xr.DataArray(np.cos(la) * np.cos(lo), dims=["n_node"])
        d["node_y"] = xr.DataArray(np.cos(la) * np.sin(lo), dims=["n_node"])
        d["node_z"] = xr.DataArray(np.sin(la), dims=["n_node"])
    d["face_node_connectivity"] = xr.DataArray(conn, dims=["n_face", "n_max_face_nodes"])
    return d

raw_cases = {
    "raw_fill_in_middle": [[0, 1, F, 3], [1, 4, 5, 2], [3, 2, 6, F]],
    "raw_fill_at_start": [[F, 1, 2, 3], [1, 4, 5, 2]],
    "raw_all_fill_row": [[F, F, F, F], [1, 4, 5, F]],
    "raw_two_node_faces": [[0, 1, F, F], [1, 4, 5, F], [2, 3, F, F]],
    "raw_zero_faces": np.empty((0, 4), dtype=INT_DTYPE),
    "raw_int32": np.array([[0, 1, 2, 3], [1, 4, 5, 2]], dtype=np.int32),
    "raw_float_conn": np.array([[0, 1, 2, 3], [1, 4, 5, 2]], dtype=float),
    "raw_minus_one_not_fill": [[0, 1, 2, -1], [1, 4, 5, 2]],
    "raw_nine_nodes": [[0, 1, 4, 10, 9, 8, 5, 2, 3], [0, 1, 2, F, F, F, F, F, F]],
}
for name, conn in raw_cases.items():
    for xyz in (False, True):
        attempt(f"{name} xyz={xyz}", lambda: _encode_exodus(raw_ds(conn, xyz)))
attempt("raw outfile title", lambda: _encode_exodus(raw_ds(raw_cases["raw_two_node_faces"]), outfile="/x/y/out.exo"))

# helper-level digest independent of the dataset plumbing: block sizes, order inside blocks
rng = np.random.default_rng(7)
for trial in range(6):
    n_face, n_max = int(rng.integers(1, 40)), int(rng.integers(3, 9))
    sizes = rng.integers(3, n_max + 1, n_face)
    conn = np.full((n_face, n_max), F, dtype=INT_DTYPE)
    for i, s in enumerate(sizes):
        conn[i, :s] = rng.integers(0, 12, s)
    out = attempt(f"random trial {trial} n_face={n_face} n_max={n_max}", lambda: _encode_exodus(raw_ds(conn)))

# history independence: big grid, then a smaller one
meshes = ["test/meshfiles/exodus/mixed/mixed.exo", "test/meshfiles/exodus/outCSne8/outCSne8.g",
          "test/meshfiles/ugrid/quad-hexagon/grid.nc", "test/meshfiles/mpas/QU/mesh.QU.1920km.151026.nc",
          "test/meshfiles/scrip/outCSne8/outCSne8.nc"]
for m in meshes:
    if not os.path.exists(m):
        print("missing mesh", m); continue
    g = ux.open_grid(m)
    ds = attempt(f"{m} exodus", lambda: g.to_xarray("exodus"))
    if ds is not None:
        r = ux.Grid.from_dataset(ds)
        print("  roundtrip same multiset:", faces_multiset(r) == faces_multiset(g))
g = make_grid(lon, lat, cases["mixed_3_4_interleaved"])
attempt("small mixed grid after encoding large ones", lambda: g.to_xarray("exodus"))
