import sys, os

sys.path.insert(0, os.getcwd())
import hashlib
import warnings
import numpy as np
import xarray as xr
import uxarray
import uxarray as ux

assert os.path.abspath(uxarray.__file__).startswith(os.path.abspath(os.getcwd()) + os.sep), uxarray.__file__

from uxarray.io import _mpas
from uxarray.io._mpas import _read_mpas
from uxarray.constants import INT_DTYPE, INT_FILL_VALUE

warnings.simplefilter("ignore")
np.set_printoptions(threshold=sys.maxsize, precision=17, linewidth=200)

# --- a small partial MPAS-like mesh: cells are 3..8-gons (zero-based lists here),
# vertices on both sides of the antimeridian and next to the poles
lonV = np.deg2rad(np.array([350.0, 10.0, 0.0, 20.0, 15.0, 30.0, 40.0, 25.0, 179.0, 181.0, 200.0, 359.5]))
latV = np.deg2rad(np.array([-5.0, -5.0, 5.0, -4.0, 6.0, -3.0, 2.0, 9.0, 88.0, 89.0, -89.5, -90.0]))
cells = [[0, 1, 2], [2, 1, 3, 4], [4, 3, 5, 6, 7], [8, 9, 10, 11, 0, 1], [7, 6, 5, 3, 1, 0, 2], [0, 1, 3, 5, 6, 7, 4, 2]]
edges = [[0, 1], [1, 2], [2, 0], [1, 3], [3, 4], [4, 2], [3, 5], [5, 6], [6, 7], [7, 4], [8, 9], [9, 10]]
nC, nV, nE, MAXE = len(cells), len(lonV), len(edges), 8
lonC = np.array([np.arctan2(np.sin(lonV[c]).mean(), np.cos(lonV[c]).mean()) % (2 * np.pi) for c in cells])
latC = np.array([latV[c].mean() for c in cells])

# up to three cells per vertex (0 = none after the +1 shift), zero-based here with -1 = none
cov = np.full((nV, 3), -1)
for v in range(nV):
    owners = [i for i, c in enumerate(cells) if v in c][:3]
    cov[v, : len(owners)] = owners
# interior zero (missing) followed by a valid entry: boundary vertex listed as [c, none, c2]
cov[3] = [1, -1, 2]
coe = np.full((nE, 2), -1)
for e, (a, b) in enumerate(edges):
    owners = [i for i, c in enumerate(cells) if a in c and b in c][:2]
    coe[e, : len(owners)] = owners
eoc = [[e for e, (a, b) in enumerate(edges) if a in c and b in c][: len(c)] for c in cells]
eov = np.full((nV, 3), -1)
for v in range(nV):
    inc = [e for e, ab in enumerate(edges) if v in ab][:3]
    eov[v, : len(inc)] = inc
coc = [[j for j in range(nC) if j != i and len(set(cells[i]) & set(cells[j])) >= 2][: len(cells[i])] for i in range(nC)]


def rows(lists, width, pad, dtype):
    """one-based rows; pad: 'zeros' | 'repeat' (last index repeated) | 'first' | 'garbage'"""
    out = np.zeros((len(lists), width), dtype=np.int64)
    for i, r in enumerate(lists):
        r = [x + 1 for x in r]
        out[i, : len(r)] = r
        if len(r) and len(r) < width:
            if pad == "repeat":
                out[i, len(r) :] = r[-1]
            elif pad == "first":
                out[i, len(r) :] = r[0]
            elif pad == "garbage":
                out[i, len(r) :] = 7 + i
    return out.astype(dtype)


def mpas_ds(pad="zeros", dtype=np.int32, n_dtype=np.int32, full=True, xyz=False, dims=("nCells", "nVertices", "nEdges", "maxEdges"), drop=()):
    dc, dv, de, dm = dims
    ds = xr.Dataset(attrs={"mesh_spec": "1.0", "sphere_radius": 1.0, "on_a_sphere": "YES"})
    ds["lonVertex"] = xr.DataArray(lonV, dims=[dv])
    ds["latVertex"] = xr.DataArray(latV, dims=[dv])
    ds["lonCell"] = xr.DataArray(lonC, dims=[dc])
    ds["latCell"] = xr.DataArray(latC, dims=[dc])
    ds["verticesOnCell"] = xr.DataArray(rows(cells, MAXE, pad, dtype), dims=[dc, dm])
    ds["nEdgesOnCell"] = xr.DataArray(np.array([len(c) for c in cells]).astype(n_dtype), dims=[dc])
    ds["cellsOnVertex"] = xr.DataArray((cov + 1).astype(dtype), dims=[dv, "vertexDegree"])
    if full:
        elon = np.array([(lonV[a] + lonV[b]) / 2 for a, b in edges])
        elat = np.array([(latV[a] + latV[b]) / 2 for a, b in edges])
        ds["lonEdge"] = xr.DataArray(elon, dims=[de])
        ds["latEdge"] = xr.DataArray(elat, dims=[de])
        ds["verticesOnEdge"] = xr.DataArray((np.array(edges) + 1).astype(dtype), dims=[de, "TWO"])
        ds["cellsOnEdge"] = xr.DataArray((coe + 1).astype(dtype), dims=[de, "TWO"])
        ds["edgesOnCell"] = xr.DataArray(rows(eoc, MAXE, pad, dtype), dims=[dc, dm])
        ds["edgesOnVertex"] = xr.DataArray((eov + 1).astype(dtype), dims=[dv, "vertexDegree"])
        ds["cellsOnCell"] = xr.DataArray(rows(coc, MAXE, pad, dtype), dims=[dc, dm])
        ds["dvEdge"] = xr.DataArray(np.linspace(0.1, 0.2, nE), dims=[de])
        ds["dcEdge"] = xr.DataArray(np.linspace(0.3, 0.4, nE), dims=[de])
        ds["areaCell"] = xr.DataArray(np.linspace(0.01, 0.02, nC), dims=[dc])
        ds["areaTriangle"] = xr.DataArray(np.linspace(0.001, 0.002, nV), dims=[dv])
    if xyz:
        for suffix, lo, la, d in (("Vertex", lonV, latV, dv), ("Cell", lonC, latC, dc)):
            ds["x" + suffix] = xr.DataArray(np.cos(la) * np.cos(lo), dims=[d])
            ds["y" + suffix] = xr.DataArray(np.cos(la) * np.sin(lo), dims=[d])
            ds["z" + suffix] = xr.DataArray(np.sin(la), dims=[d])
    return ds.drop_vars(list(drop))


def ds_digest(ds):
    parts = [f"sizes={dict(ds.sizes)} coords={sorted(ds.coords)} order={list(ds.variables)} attrs={dict(ds.attrs)}"]
    for name in sorted(ds.variables):
        v = ds[name]
        parts.append(f"{name} dims={v.dims} dtype={v.dtype} attrs={ {k: repr(a) for k, a in sorted(v.attrs.items())} }\n{v.values!r}")
    return "\n".join(parts)


def case(label, make, use_dual):
    try:
        src = make()
        before = ds_digest(src)
        out, dims = _read_mpas(src, use_dual=use_dual)
        print(f"READ {label} dual={use_dual}: dims={list(dims.items())} source_untouched={ds_digest(src) == before}\n{ds_digest(out)}")
        # every connectivity array is a fresh, writeable array that does not alias the source
        for name in out.variables:
            if name.endswith("connectivity"):
                a = out[name].values
                print("   ", name, "owndata/writeable", a.flags.owndata or a.base is not None, a.flags.writeable, "shares source:", any(np.shares_memory(a, src[v].values) for v in src.variables))
    except Exception as e:  # noqa
        print(f"READ {label} dual={use_dual}: EXC {type(e).__name__}: {e}")
    try:
        g = ux.open_grid(make(), use_dual=use_dual)
        print(f"GRID {label} dual={use_dual}: n_face={g.n_face} n_node={g.n_node} spec={g.source_grid_spec} srcdims={list(g._source_dims_dict.items())}")
        print(ds_digest(g._ds))
    except Exception as e:  # noqa
        print(f"GRID {label} dual={use_dual}: EXC {type(e).__name__}: {e}")


for pad in ("zeros", "repeat", "first", "garbage"):
    for dtype in (np.int32, np.int64, np.float64):
        for use_dual in (False, True):
            case(f"pad={pad} dtype={np.dtype(dtype).name}", lambda: mpas_ds(pad=pad, dtype=dtype), use_dual)

for use_dual in (False, True):
    case("minimal", lambda: mpas_ds(full=False), use_dual)
    case("xyz + odd dims", lambda: mpas_ds(xyz=True, pad="repeat", dims=("cells", "verts", "edgs", "mx")), use_dual)
    case("n_dtype float", lambda: mpas_ds(n_dtype=np.float64, pad="garbage"), use_dual)
    case("n_dtype int8 / conn int16", lambda: mpas_ds(n_dtype=np.int8, dtype=np.int16, pad="repeat"), use_dual)
    case("uint8 conn", lambda: mpas_ds(dtype=np.uint8, pad="first"), use_dual)
    case("no nEdgesOnCell", lambda: mpas_ds(drop=["nEdgesOnCell"]), use_dual)
    case("no cellsOnVertex", lambda: mpas_ds(drop=["cellsOnVertex"]), use_dual)
    case("no edge vars but cellsOnCell", lambda: mpas_ds(drop=["verticesOnEdge", "cellsOnEdge", "edgesOnCell", "edgesOnVertex"]), use_dual)
    case("nEdgesOnCell too large/zero", lambda: mpas_ds(pad="garbage").assign(nEdgesOnCell=("nCells", np.array([0, 20, 5, 6, 7, 8], dtype=np.int32))), use_dual)
    case("nEdgesOnCell wrong length", lambda: mpas_ds().drop_vars("nEdgesOnCell").assign(nEdgesOnCell=("other", np.array([3, 4, 5], dtype=np.int32))), use_dual)

# the individual parsers, including mesh_type values other than the two documented ones
src = mpas_ds(pad="repeat", dtype=np.int64)
for fn_name in ("_parse_face_nodes", "_parse_edge_nodes", "_parse_node_faces", "_parse_face_edges", "_parse_edge_faces"):
    for mesh_type in ("primal", "dual", "Primal", None, 0):
        out = xr.Dataset()
        try:
            ret = getattr(_mpas, fn_name)(src, out, mesh_type)
            print(f"PARSE {fn_name} mesh_type={mesh_type!r} ret={ret!r}\n{ds_digest(out)}")
        except Exception as e:  # noqa
            print(f"PARSE {fn_name} mesh_type={mesh_type!r}: EXC {type(e).__name__}: {e}")
    for missing in ("verticesOnCell", "cellsOnVertex", "nEdgesOnCell", "verticesOnEdge", "cellsOnEdge", "edgesOnCell", "edgesOnVertex"):
        for mesh_type in ("primal", "dual"):
            out = xr.Dataset()
            try:
                getattr(_mpas, fn_name)(src.drop_vars(missing), out, mesh_type)
                print(f"PARSE {fn_name} without {missing} {mesh_type}: ok {list(out.variables)}")
            except Exception as e:  # noqa
                print(f"PARSE {fn_name} without {missing} {mesh_type}: EXC {type(e).__name__}: {str(e)[:80]}")
out = xr.Dataset()
print("PARSE _parse_face_faces", _mpas._parse_face_faces(src, out), ds_digest(out))
for missing in ("cellsOnCell", "nEdgesOnCell"):
    try:
        _mpas._parse_face_faces(src.drop_vars(missing), xr.Dataset())
    except Exception as e:  # noqa
        print(f"PARSE _parse_face_faces without {missing}: EXC {type(e).__name__}: {str(e)[:80]}")

# the low-level helpers keep working in place
a = np.array([[1, 2, 3, 3, 3], [4, 5, 6, 7, 0]], dtype=INT_DTYPE)
r = _mpas._replace_padding(a, np.array([3, 4]))
print("HELPER _replace_padding", r is a, repr(a))
r = _mpas._replace_zeros(a)
print("HELPER _replace_zeros", r is a, repr(a))
r = _mpas._to_zero_index(a)
print("HELPER _to_zero_index", r is a, repr(a))

for path in ("test/meshfiles/mpas/QU/mesh.QU.1920km.151026.nc", "test/meshfiles/mpas/QU/oQU480.231010.nc"):
    for use_dual in (False, True):
        try:
            g = ux.open_grid(path, use_dual=use_dual)
            h = hashlib.sha1()
            for name in sorted(g._ds.variables):
                h.update(name.encode())
                h.update(repr(g._ds[name].dims).encode())
                h.update(str(g._ds[name].dtype).encode())
                h.update(np.ascontiguousarray(g._ds[name].values).tobytes())
            print("FILE", path, use_dual, g.n_face, g.n_node, list(g._source_dims_dict.items()), sorted(g._ds.variables), h.hexdigest())
        except Exception as e:  # noqa
            print("FILE", path, use_dual, "EXC", type(e).__name__, str(e)[:200])
