import sys, os

sys.path.insert(0, os.getcwd())

import hashlib
import subprocess
import warnings

import numpy as np

import uxarray
import uxarray as ux

assert os.path.abspath(uxarray.__file__).startswith(os.path.abspath(os.getcwd()) + os.sep), uxarray.__file__

from uxarray.constants import INT_FILL_VALUE, INT_DTYPE
from uxarray.grid.dual import construct_dual

warnings.filterwarnings("ignore")
np.set_printoptions(threshold=100000, linewidth=200)

FV = INT_FILL_VALUE


def h(a):
    a = np.ascontiguousarray(a)
    return f"{a.dtype} {a.shape} {hashlib.sha256(a.tobytes()).hexdigest()[:20]}"


def show(tag, a, full=False):
    a = np.asarray(a)
    print(tag, h(a))
    if full:
        print(repr(np.where(a == FV, -9, a)) if a.dtype.kind in "iu" else repr(a))


# ----------------------------------------------------------------------------
# mesh builders
# ----------------------------------------------------------------------------
def xyz_to_lonlat(p):
    p = np.asarray(p, dtype=float)
    p = p / np.linalg.norm(p, axis=1)[:, None]
    lon = np.degrees(np.arctan2(p[:, 1], p[:, 0]))
    lat = np.degrees(np.arcsin(np.clip(p[:, 2], -1, 1)))
    return lon, lat


def pad(faces, fv=FV, width=None):
    width = width or max(len(f) for f in faces)
    out = np.full((len(faces), width), fv, dtype=np.int64)
    for i, f in enumerate(faces):
        out[i, : len(f)] = f
    return out


def rot(p, axis, ang):
    axis = np.asarray(axis, float) / np.linalg.norm(axis)
    p = np.asarray(p, float)
    c, s = np.cos(ang), np.sin(ang)
    return p * c + np.cross(axis, p) * s + np.outer(p @ axis, axis) * (1 - c)


def orient(points, faces):
    """make every face counter-clockwise seen from outside"""
    out = []
    for f in faces:
        q = points[list(f)]
        n = np.zeros(3)
        for k in range(len(f)):
            n += np.cross(q[k], q[(k + 1) % len(f)])
        out.append(list(f) if n @ q.mean(axis=0) > 0 else list(f)[::-1])
    return out


def cube():
    p = np.array([[x, y, z] for x in (-1, 1) for y in (-1, 1) for z in (-1, 1)], float)
    f = [[0, 1, 3, 2], [4, 6, 7, 5], [0, 4, 5, 1], [2, 3, 7, 6], [0, 2, 6, 4], [1, 5, 7, 3]]
    return p, orient(p, f)


def octahedron():
    p = np.array([[1, 0, 0], [-1, 0, 0], [0, 1, 0], [0, -1, 0], [0, 0, 1], [0, 0, -1]], float)
    f = [[a, b, c] for a in (0, 1) for b in (2, 3) for c in (4, 5)]
    return p, orient(p, f)


def capped_cube():
    """cube with one face replaced by a 4 triangle cap: triangles and quads, valence 3 and 4"""
    p, f = cube()
    p = np.vstack([p, [[0, 0, 1.9]]])
    top = [q for q in f if all(p[i][2] > 0 for i in q)][0]
    f = [q for q in f if q is not top]
    for k in range(4):
        f.append([top[k], top[(k + 1) % 4], 8])
    return p, orient(p, f)


def prism(n):
    """n-gonal prism: two n-gons and n quads"""
    ang = np.arange(n) * 2 * np.pi / n + 0.1
    top = np.c_[np.cos(ang), np.sin(ang), np.full(n, 0.6)]
    bot = np.c_[np.cos(ang), np.sin(ang), np.full(n, -0.6)]
    p = np.vstack([top, bot])
    f = [list(range(n)), list(range(n, 2 * n))]
    for k in range(n):
        f.append([k, (k + 1) % n, n + (k + 1) % n, n + k])
    return p, orient(p, f)


def hull(npts, seed):
    from scipy.spatial import ConvexHull

    rng = np.random.default_rng(seed)
    p = rng.normal(size=(npts, 3))
    p /= np.linalg.norm(p, axis=1)[:, None]
    f = [list(map(int, s)) for s in ConvexHull(p).simplices]
    return p, orient(p, f)


def merge_some(p, f, seed):
    """merge a few pairs of neighbouring triangles into quads: mixed sizes"""
    rng = np.random.default_rng(seed)
    f = [list(x) for x in f]
    used = set()
    edge = {}
    for i, t in enumerate(f):
        for k in range(3):
            edge.setdefault(frozenset((t[k], t[(k + 1) % 3])), []).append(i)
    keys = sorted(edge, key=lambda e: sorted(e))
    rng.shuffle(keys)
    quads = []
    for e in keys[: len(keys) // 3]:
        a, b = edge[e]
        if a in used or b in used:
            continue
        used |= {a, b}
        ta, tb = f[a], f[b]
        u, v = sorted(e)
        oa = [x for x in ta if x not in e][0]
        ob = [x for x in tb if x not in e][0]
        quads.append([oa, u, ob, v])
    f = [t for i, t in enumerate(f) if i not in used] + quads
    return p, orient(p, f)


def renumber(p, f, seed):
    rng = np.random.default_rng(seed)
    perm = rng.permutation(len(p))  # new index of old node i is perm[i]
    newp = np.empty_like(p)
    newp[perm] = p
    f = [[int(perm[i]) for i in q] for q in f]
    order = rng.permutation(len(f))
    f = [f[i] for i in order]
    # rotate the start of every face
    f = [q[k % len(q) :] + q[: k % len(q)] for k, q in enumerate(f)]
    return newp, f


def grid_of(p, f, fv=FV, start_index=0, width=None):
    lon, lat = xyz_to_lonlat(p)
    conn = pad(f, fv=fv, width=width)
    if start_index:
        conn = np.where(conn == fv, fv, conn + start_index)
    return ux.Grid.from_topology(lon, lat, conn, fill_value=fv, start_index=start_index)


def patch(nx, ny, lon0, lat0, d):
    """planar patch of quads, a partial grid"""
    lon = lon0 + d * np.arange(nx + 1)
    lat = lat0 + d * np.arange(ny + 1)
    LON, LAT = np.meshgrid(lon, lat)
    LON = ((LON + 180) % 360) - 180
    idx = np.arange((nx + 1) * (ny + 1)).reshape(ny + 1, nx + 1)
    f = []
    for j in range(ny):
        for i in range(nx):
            f.append([idx[j, i], idx[j, i + 1], idx[j + 1, i + 1], idx[j + 1, i]])
    return LON.ravel(), LAT.ravel(), np.array(f)


# ----------------------------------------------------------------------------
def report_dual(tag, grid, full=False):
    print("==", tag, "n_node", grid.n_node, "n_face", grid.n_face)
    try:
        raw = construct_dual(grid)
        show("  construct_dual", raw, full)
        dual = grid.get_dual()
    except Exception as e:  # noqa
        print("  EXC", type(e).__name__, e)
        return None
    print("  dual n_node", dual.n_node, "n_face", dual.n_face, "n_max_face_nodes", dual.n_max_face_nodes)
    show("  dual.face_node_connectivity", dual.face_node_connectivity.values, full)
    show("  dual.node_lon", dual.node_lon.values, full)
    show("  dual.node_lat", dual.node_lat.values, full)
    show("  dual.n_nodes_per_face", dual.n_nodes_per_face.values, full)
    return dual


def report_data(tag, grid, seed):
    rng = np.random.default_rng(seed)
    for dim, n in (("n_face", grid.n_face), ("n_node", grid.n_node)):
        vals = rng.normal(size=(2, n))
        uxda = ux.UxDataArray(uxgrid=grid, data=vals, dims=["t", dim], name="v_" + dim)
        try:
            d = uxda.get_dual()
        except Exception as e:  # noqa
            print("  data", dim, "EXC", type(e).__name__, e)
            continue
        print("  data", tag, dim, "->", d.dims, d.name, h(d.values), bool(np.array_equal(d.values, vals)))
        show("    its grid conn", d.uxgrid.face_node_connectivity.values)


def direct_process_connectivity():
    """_process_connectivity / _read_topology called directly, results, dtypes, aliasing and exceptions"""
    from uxarray.io._topology import _process_connectivity, _read_topology

    print("== direct _process_connectivity")

    def run(tag, conn, fv, si):
        before = np.array(conn, copy=True) if isinstance(conn, np.ndarray) else None
        try:
            out = _process_connectivity(conn, fv, si)
        except Exception as e:  # noqa
            print(" ", tag, "EXC", type(e).__name__, str(e)[:120])
            return
        alias = isinstance(conn, np.ndarray) and bool(np.shares_memory(out, conn))
        untouched = before is None or bool(np.array_equal(before, conn, equal_nan=before.dtype.kind == "f"))
        print(" ", tag, type(out).__name__, h(out), "alias", alias, "input untouched", untouched, "writeable", out.flags.writeable)
        print(repr(np.where(out == FV, -9, out)))

    base = np.array([[0, 1, 2, 3], [3, 2, 4, -1], [4, 5, -1, -1]])
    for dt in (np.int64, np.int32, np.uint32, np.int8, np.float64, np.float32):
        unsigned = np.dtype(dt).kind == "u"
        fv = 99 if unsigned else -1
        for si in (0, 1, np.int32(1), 2):
            padded = np.where(base < 0, fv, base + si).astype(dt)
            run(f"padded {np.dtype(dt).name} fv={fv} si={si!r}", padded, fv, si)
            run(f"unpadded {np.dtype(dt).name} si={si!r}", (np.abs(base) + si).astype(dt), None, si)
        if not unsigned:
            run(f"padded {np.dtype(dt).name} negative si", np.where(base < 0, -9, base - 2).astype(dt), -9, -2)
    # fill value already the standard one, with and without start index
    c = np.where(base < 0, FV, base).astype(INT_DTYPE)
    run("standard fv si=0", c, FV, 0)
    run("standard fv si=1", np.where(c == FV, FV, c + 1), FV, 1)
    run("standard fv, fill_value None, si=0", c, None, 0)
    # nan fill value
    f = base.astype(float)
    f[f < 0] = np.nan
    run("nan fv float", f, np.nan, 0)
    run("nan fv float si=1", f + 1, np.nan, 1)
    # fill value that does not occur / occurs as a valid looking index
    run("fv absent", np.abs(base), 77, 0)
    run("fv = 0, si=1", np.array([[1, 2, 3, 0], [2, 3, 4, 5]]), 0, 1)
    # lists, tuples, empty, 1d
    run("list padded", [[1, 2, 3, -1], [2, 3, 4, 1]], -1, 1)
    run("list unpadded", [[1, 2, 3], [2, 3, 4]], None, 1)
    run("tuple unpadded", ((0, 1, 2),), None, 0)
    run("empty padded", np.empty((0, 3), dtype=np.int64), -1, 1)
    run("empty unpadded", np.empty((0, 3), dtype=np.int64), None, 1)
    run("1d padded", np.array([1, 2, -1]), -1, 1)
    # awkward start index / fill values
    run("float start index padded", base.copy(), -1, 1.0)
    run("float start index unpadded", np.abs(base), None, 1.0)
    run("float start index 0.5 padded", base.copy(), -1, 0.5)
    run("None start index padded", base.copy(), -1, None)
    run("None start index unpadded", np.abs(base), None, None)
    run("string conn", np.array([["a", "b"]]), -1, 0)
    run("non integral float conn unpadded", np.array([[0.5, 1.5, 2.0]]), None, 0)
    run("nan in conn unpadded", np.array([[0.0, np.nan, 2.0]]), None, 0)
    run("fv float 2.0 int conn", base.copy() + 3, 2.0, 0)
    run("fv out of range", base.copy(), 2**70, 0)
    run("read only input", np.lib.stride_tricks.as_strided(base.copy()), -1, 1)
    ro = base.copy()
    ro.flags.writeable = False
    run("read only padded", ro, -1, 1)
    run("read only unpadded", ro, None, 1)
    # non contiguous
    big = np.arange(40).reshape(5, 8)
    run("strided padded", big[::2, ::2], 4, 0)
    run("strided unpadded", big[::2, ::2], None, 2)
    # INT_DTYPE input, zero start: is the result a fresh array?
    d = np.arange(12, dtype=INT_DTYPE).reshape(4, 3)
    run("intp unpadded si=0", d, None, 0)
    run("intp padded si=0 fv standard", d, FV, 0)

    print("== direct _read_topology")
    lon = np.array([0.0, 10.0, 10.0, 0.0, 20.0])
    lat = np.array([0.0, 0.0, 10.0, 10.0, 5.0])
    fnc = np.array([[1, 2, 3, 4], [2, 5, 3, -1]])
    enc = np.array([[1, 2], [2, 3], [3, 4], [4, 1], [2, 5], [5, 3]])
    ffc = np.array([[2, -1, -1, -1], [1, -1, -1, -1]])
    for fv, si, kw in (
        (-1, 1, {}),
        (-1, 1, {"edge_node_connectivity": enc, "face_face_connectivity": ffc}),
        (None, 1, {"edge_node_connectivity": enc}),
        (-1, 1, {"node_x": np.cos(np.radians(lon)), "face_lon": np.array([5.0, 13.0]), "edge_node_connectivity": enc}),
    ):
        fin = fnc if fv is not None else fnc[:1]
        ds = _read_topology(lon, lat, fin, fv, si, **kw)
        print("  vars", list(ds.data_vars), dict(ds.sizes))
        for name in ds.data_vars:
            v = ds[name]
            print("   ", name, v.dims, h(v.values), sorted(v.attrs))
            print(repr(np.where(v.values == FV, -9, v.values) if v.dtype.kind == "i" else v.values))
        print("  aliases input", bool(np.shares_memory(ds["face_node_connectivity"].values, fin)), "input", fin.tolist())

    print("== get_dual results are fresh objects")
    g = grid_of(*capped_cube())
    d1 = g.get_dual()
    d2 = g.get_dual()
    print("  type", type(d1).__name__, "same object", d1 is d2, "source", d1.source_grid_spec)
    print("  conn shares memory between calls", bool(np.shares_memory(d1.face_node_connectivity.values, d2.face_node_connectivity.values)))
    print("  node_lon shares memory with primal face_lon", bool(np.shares_memory(d1.node_lon.values, g.face_lon.values)))
    print("  dual ds vars", sorted(d1._ds.data_vars), dict(d1._ds.sizes))

    class MyGrid(ux.Grid):
        pass

    mg = MyGrid(g._ds, "x")
    print("  subclass dual type", type(mg.get_dual()).__name__)
    # dual of the dual
    dd = d1.get_dual()
    show("  dual of dual conn", dd.face_node_connectivity.values, True)


def main():
    print("JIT disabled:", os.environ.get("NUMBA_DISABLE_JIT", "0"))
    tilt = lambda p: rot(rot(p, [1, 0.3, 0.2], 0.7), [0, 1, 0.5], 1.1)  # noqa

    small = {
        "cube": cube(),
        "cube tilted": (tilt(cube()[0]), cube()[1]),
        "octahedron (poles, antimeridian)": octahedron(),
        "capped cube (mixed)": capped_cube(),
        "capped cube renumbered": renumber(*capped_cube(), 3),
        "prism5": prism(5),
        "prism8 tilted": (tilt(prism(8)[0]), prism(8)[1]),
    }
    for tag, (p, f) in small.items():
        g = grid_of(p, f)
        report_dual(tag, g, full=True)
        report_data(tag, g, 1)

    # other fill value / start index on input, extra padding column
    p, f = capped_cube()
    report_dual("capped cube fv=-1 start 1 wide", grid_of(p, f, fv=-1, start_index=1, width=6), full=True)

    for npts, seed in ((12, 0), (30, 1), (80, 2), (200, 3)):
        p, f = hull(npts, seed)
        # node at the north pole, at the south pole and on the antimeridian
        p[0] = [0, 0, 1]
        p[1] = [0, 0, -1]
        p[2] = [-1, 0, 0]
        from scipy.spatial import ConvexHull

        f = orient(p, [list(map(int, s)) for s in ConvexHull(p).simplices])
        g = grid_of(p, f)
        val = np.bincount(np.concatenate(f))
        print("valences", np.bincount(val).tolist())
        report_dual(f"hull {npts}", g, full=npts <= 30)
        report_data(f"hull {npts}", g, seed)
        pm, fm = merge_some(p, f, seed)
        gm = grid_of(pm, fm)
        report_dual(f"hull {npts} merged (mixed)", gm, full=npts <= 30)
        report_data(f"hull {npts} merged", gm, seed)
        pr, fr = renumber(pm, fm, seed + 10)
        report_dual(f"hull {npts} merged renumbered", grid_of(pr, fr), full=npts <= 30)
        # partial: drop faces
        rng = np.random.default_rng(seed)
        keep = rng.random(len(fm)) > 0.25
        fp = [q for q, k in zip(fm, keep) if k]
        used = np.unique(np.concatenate(fp))
        remap = -np.ones(len(pm), dtype=int)
        remap[used] = np.arange(len(used))
        fp = [[int(remap[i]) for i in q] for q in fp]
        gp = grid_of(pm[used], fp)
        report_dual(f"hull {npts} partial", gp, full=npts <= 30)
        report_data(f"hull {npts} partial", gp, seed)

    # planar partial patches: across the antimeridian, near the pole
    for tag, args in (
        ("patch 3x3", (3, 3, -10.0, -10.0, 5.0)),
        ("patch antimeridian", (4, 3, 170.0, 20.0, 5.0)),
        ("patch polar", (5, 2, -30.0, 75.0, 7.0)),
        ("patch 1x1 (no dual face)", (1, 1, 0.0, 0.0, 5.0)),
        ("patch 2x1 (no dual face)", (2, 1, 0.0, 0.0, 5.0)),
    ):
        lon, lat, conn = patch(*args)
        g = ux.Grid.from_topology(lon, lat, conn)
        report_dual(tag, g, full=True)

    # files
    for rel in (
        "test/meshfiles/ugrid/quad-hexagon/grid.nc",
        "test/meshfiles/ugrid/outCSne30/outCSne30.ug",
        "test/meshfiles/mpas/QU/mesh.QU.1920km.151026.nc",
        "test/meshfiles/mpas/QU/oQU480.231010.nc",
        "test/meshfiles/scrip/outCSne8/outCSne8.nc",
    ):
        path = os.path.join(os.getcwd(), rel)
        if not os.path.exists(path):
            print("missing", rel)
            continue
        try:
            g = ux.open_grid(path)
        except Exception as e:  # noqa
            print("open EXC", rel, type(e).__name__)
            continue
        report_dual(rel, g)

    direct_process_connectivity()


if __name__ == "__main__":
    main()
    if os.environ.get("NUMBA_DISABLE_JIT") != "1" and "--child" not in sys.argv:
        sys.stdout.flush()
        env = dict(os.environ, NUMBA_DISABLE_JIT="1")
        r = subprocess.run([sys.executable, os.path.abspath(__file__), "--child"], env=env, cwd=os.getcwd())
        print("child exit", r.returncode)
