import sys, os

sys.path.insert(0, os.getcwd())

import hashlib
import warnings

import numpy as np
import numba

import uxarray as ux

assert os.path.abspath(ux.__file__).startswith(os.path.abspath(os.getcwd()) + os.sep), ux.__file__

# numba performance / parallel diagnostics would show up here if the kernel changed character
warnings.simplefilter("always")
import logging

logging.captureWarnings(False)

from uxarray.grid.intersections import fast_constant_lat_intersections

MESH = os.path.join(os.getcwd(), "test", "meshfiles")
GRIDS = {
    "quadhex": os.path.join(MESH, "ugrid", "quad-hexagon", "grid.nc"),
    "mixed": os.path.join(MESH, "exodus", "mixed", "mixed.exo"),
    "mpas": os.path.join(MESH, "mpas", "QU", "mesh.QU.1920km.151026.nc"),
    "ne8": os.path.join(MESH, "scrip", "outCSne8", "outCSne8.nc"),
    "ne30": os.path.join(MESH, "ugrid", "outCSne30", "outCSne30.ug"),
}
MAX_THREADS = numba.config.NUMBA_NUM_THREADS
THREADS = sorted({1, min(2, MAX_THREADS), min(3, MAX_THREADS), MAX_THREADS})


def digest(arr):
    arr = np.ascontiguousarray(np.asarray(arr))
    return "%s %s %s" % (arr.dtype, arr.shape, hashlib.sha1(arr.tobytes()).hexdigest()[:16])


def show(arr):
    arr = np.asarray(arr)
    return "%s head=%s" % (digest(arr), arr.ravel()[:10].tolist())


def attempt(label, fn):
    try:
        r = fn()
    except Exception as e:  # noqa
        print("  [%s] EXC %s: %s" % (label, type(e).__name__, e))
        return None
    print("  [%s] %s" % (label, r))
    return r


# ---------------------------------------------------------------- kernel on synthetic input
print("=== kernel, synthetic")
tiny = 5e-324
zc30 = np.sin(np.deg2rad(30.0))
synthetic = {
    "basic": np.array([[0.1, 0.9], [0.9, 0.1], [0.6, 0.7], [0.1, 0.2], [-1.0, 1.0], [1.0, -1.0]]),
    "touching": np.array([[zc30, 0.9], [0.1, zc30], [zc30, zc30], [np.nextafter(zc30, 1), np.nextafter(zc30, -1)]]),
    "underflow": np.array([[zc30 + 1e-200, zc30 - 1e-200], [zc30 - 1e-17, zc30 + 1e-17], [zc30 + 1e-150, zc30 - 1e-150]]),
    # at lat=0 the product of the two offsets underflows to -0.0 for the first rows
    "underflow0": np.array([[1e-200, -1e-200], [-1e-170, 1e-170], [1e-162, -1e-162], [1e-161, -1e-161], [tiny, -1.0], [tiny, -tiny], [1e-150, -1e-150]]),
    "nan_inf": np.array([[np.nan, 0.9], [0.1, np.nan], [-np.inf, np.inf], [np.inf, np.inf], [0.0, -0.0]]),
    "single": np.array([[0.0, 1.0]]),
    "none": np.array([[0.9, 0.95], [0.0, 0.1]]),
    "empty": np.zeros((0, 2)),
}
rng = np.random.default_rng(3)
synthetic["random"] = rng.uniform(-1, 1, size=(5000, 2))
synthetic["float32"] = synthetic["random"][:300].astype(np.float32)
synthetic["fortran"] = np.asfortranarray(synthetic["random"][:500])
synthetic["strided"] = synthetic["random"][::3]
synthetic["three columns"] = rng.uniform(-1, 1, size=(200, 3))
for name, z in synthetic.items():
    for lat in (30.0, 0.0, 0, -45.5, 89.999, -89.999, np.float32(12.5), np.float64(30.0)):
        outs = []
        for t in THREADS:
            numba.set_num_threads(t)
            r = fast_constant_lat_intersections(lat, z, z.shape[0])
            outs.append(show(r))
        numba.set_num_threads(MAX_THREADS)
        print("  %s lat=%r -> %s%s" % (name, lat, outs[0], "" if len(set(outs)) == 1 else " THREAD-DEPENDENT %s" % outs))
    # only a prefix of the table
    for n in (0, 1, z.shape[0] // 2):
        print("  %s prefix n_edge=%d -> %s" % (name, n, show(fast_constant_lat_intersections(10.0, z, n))))
    print("  %s np.int64 n_edge -> %s" % (name, show(fast_constant_lat_intersections(10.0, z, np.int64(z.shape[0])))))

# ---------------------------------------------------------------- grids
for gname, path in GRIDS.items():
    for history in ("fresh", "edges-built"):
        print("=== %s / %s" % (gname, history))
        grid = ux.open_grid(path)
        if history == "edges-built":
            grid.edge_node_connectivity
            grid.face_edge_connectivity
            grid.edge_face_connectivity
            grid.node_face_connectivity
            grid.edge_node_distances
        print("  edge_node_z cached before: %s" % ("edge_node_z" in grid._ds))
        enz = grid.edge_node_z
        print("  edge_node_z %s dims=%s attrs=%s name=%s" % (digest(enz.values), enz.dims, dict(enz.attrs), enz.name))
        print("  edge_node_z cached after: %s, same buffer on re-read: %s" % ("edge_node_z" in grid._ds, np.shares_memory(grid.edge_node_z.values, grid._ds["edge_node_z"].values)))
        print("  edge_node_z == node_z[edge_nodes]: %s" % np.array_equal(enz.values, grid.node_z.values[grid.edge_node_connectivity.values]))
        # a cached table is used as is (never rebuilt)
        g2 = ux.open_grid(path)
        g2._ds["edge_node_z"] = enz * 0.0 + 0.25
        print("  preset edge_node_z kept: %s, faces at 10: %s" % (bool((g2.edge_node_z.values == 0.25).all()), show(g2.get_faces_at_constant_latitude(10.0))))

        nlat = grid.node_lat.values
        lats = [0.0, 0, 10.0, -33.3, 45.0, 60, 89.0, -89.0, 89.99999, -89.99999, float(nlat.max()), float(nlat.min()),
                float(nlat[0]), float(nlat[len(nlat) // 2]), float(np.nextafter(nlat[0], 100)), float(np.median(nlat)), np.float32(20.0)]
        for lat in lats:
            e_outs, f_outs = [], []
            for t in THREADS:
                numba.set_num_threads(t)
                e = grid.get_edges_at_constant_latitude(lat)
                f = grid.get_faces_at_constant_latitude(lat)
                e_outs.append(show(e))
                f_outs.append(show(f))
            numba.set_num_threads(MAX_THREADS)
            print("  lat=%r edges %s%s" % (lat, e_outs[0], "" if len(set(e_outs)) == 1 else " THREAD-DEPENDENT"))
            print("  lat=%r faces %s%s" % (lat, f_outs[0], "" if len(set(f_outs)) == 1 else " THREAD-DEPENDENT"))
            # reference: strict opposite sides of the parallel, same arithmetic
            zc = np.sin(np.deg2rad(lat))
            ref = np.flatnonzero((enz.values[:, 0] - zc) * (enz.values[:, 1] - zc) < 0.0)
            print("  lat=%r edges match reference: %s" % (lat, np.array_equal(np.atleast_1d(e), ref)))

            def xsec():
                g, faces = grid.cross_section.constant_latitude(lat, return_face_indices=True)
                return "faces=%s sub_faces=%s fnc=%s lon=%s enc=%s n_edge=%d" % (
                    show(faces), digest(g._ds["subgrid_face_indices"].values), digest(g.face_node_connectivity.values),
                    digest(g.node_lon.values), digest(g.edge_node_connectivity.values), g.n_edge)

            attempt("xsec lat=%r" % (lat,), xsec)

        # methods
        attempt("edges method=accurate", lambda: grid.get_edges_at_constant_latitude(10.0, method="accurate"))
        attempt("edges method=bogus", lambda: grid.get_edges_at_constant_latitude(10.0, method="bogus"))
        attempt("edges method=None", lambda: grid.get_edges_at_constant_latitude(10.0, method=None))
        attempt("edges method positional fast", lambda: show(grid.get_edges_at_constant_latitude(10.0, "fast")))
        attempt("faces method=accurate", lambda: grid.get_faces_at_constant_latitude(10.0, method="accurate"))
        attempt("faces method=bogus", lambda: grid.get_faces_at_constant_latitude(10.0, method="bogus"))
        attempt("xsec method=accurate", lambda: grid.cross_section.constant_latitude(10.0, method="accurate"))
        attempt("xsec method=bogus", lambda: grid.cross_section.constant_latitude(10.0, method="bogus"))
        attempt("xsec lat=90", lambda: grid.cross_section.constant_latitude(90.0))
        attempt("xsec lat=-90", lambda: grid.cross_section.constant_latitude(-90.0))
        # a bad method must be reported before edge_node_z is built
        g3 = ux.open_grid(path)
        attempt("fresh bogus", lambda: g3.get_edges_at_constant_latitude(10.0, method="bogus"))
        attempt("fresh accurate", lambda: g3.get_edges_at_constant_latitude(10.0, method="accurate"))
        print("  after bad methods, vars: %s" % sorted(g3._ds.variables))

        # data carried along
        nf, nn, ne = grid.n_face, grid.n_node, grid.n_edge
        das = [
            ux.UxDataArray(np.arange(2 * nf).reshape(2, nf), dims=["t", "n_face"], uxgrid=grid, name="f"),
            ux.UxDataArray(np.arange(nn) * 0.5, dims=["n_node"], uxgrid=grid, name="n"),
            ux.UxDataArray(np.arange(3 * ne).reshape(ne, 3), dims=["n_edge", "k"], uxgrid=grid, name="e"),
        ]
        for da in das:
            for lat in (10.0, float(nlat[0]), -60):
                attempt(
                    "data %s lat=%r" % (da.name, lat),
                    lambda: (lambda r: "dims=%s %s faces=%s" % (r.dims, digest(r.values), digest(r.uxgrid._ds["subgrid_face_indices"].values)))(
                        da.cross_section.constant_latitude(lat)),
                )

        # a cross-section of a subset (edges re-derived on the subset)
        sub = grid.isel(n_face=np.arange(0, grid.n_face, 2))
        attempt("subset faces lat=10", lambda: show(sub.get_faces_at_constant_latitude(10.0)))
        attempt("subset edges lat=10", lambda: show(sub.get_edges_at_constant_latitude(10.0)))
        print("  source vars after: %s" % sorted(grid._ds.variables))
