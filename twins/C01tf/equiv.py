import sys, os; sys.path.insert(0, os.getcwd())
import hashlib, warnings
import numpy as np
import xarray as xr
warnings.filterwarnings("ignore")
import uxarray
assert os.path.abspath(uxarray.__file__).startswith(os.path.abspath(os.getcwd()) + os.sep), uxarray.__file__
import uxarray as ux
from uxarray.io._topology import _read_topology
from uxarray.constants import INT_FILL_VALUE, INT_DTYPE


def digest_ds(tag, ds):
    print("==", tag, "attrs", sorted((k, repr(v)) for k, v in ds.attrs.items()))
    print("   dims", sorted(ds.sizes.items()), "coords", list(ds.coords))
    for name in list(ds.variables):          # insertion order is part of the digest
        v = ds[name]
        a = np.ascontiguousarray(v.values)
        h = hashlib.sha1(a.tobytes()).hexdigest()[:16]
        print("  ", name, v.dims, a.dtype, a.shape, h, sorted((k, repr(x)) for k, x in v.attrs.items()))
        if a.size <= 60:
            print("      ", repr(a.tolist()))


# mixed 3..8-gons, zero based
FACES = [
    [0, 1, 2],
    [1, 3, 4, 2],
    [2, 4, 5, 6, 7],
    [3, 8, 5, 4, 1, 0],
    [9, 10, 11, 12, 13, 14, 15],
    [0, 1, 2, 3, 4, 5, 6, 7],
    [15, 14, 13],
]
EDGES = [[0, 1], [1, 2], [2, 0], [1, 3], [3, 4], [4, 2]]
EDGE_FACES = [[0, -1], [0, 1], [0, -1], [1, 3], [1, -1], [1, 2]]
N_NODE = 16
rng = np.random.default_rng(3)
LON360 = rng.uniform(0, 360, N_NODE); LON360[0] = 180.0; LON360[1] = 360.0; LON360[2] = 0.0
LON180 = rng.uniform(-180, 180, N_NODE); LON180[0] = -180.0; LON180[1] = 180.0
LAT = rng.uniform(-90, 90, N_NODE); LAT[0] = 90.0; LAT[1] = -90.0


def padded(rows, fill, start, dtype, width=None):
    width = width or max(len(r) for r in rows)
    out = np.full((len(rows), width), fill, dtype=np.float64)
    for i, r in enumerate(rows):
        r = np.array(r, dtype=np.float64)
        shifted = np.where(r < 0, fill, r + start)    # negative entries of EDGE_FACES mean "no face"
        out[i, : len(r)] = shifted
    return out.astype(dtype)


def run(tag, *args, **kwargs):
    inputs = [a for a in list(args) + list(kwargs.values()) if isinstance(a, np.ndarray)]
    snaps = [a.copy() for a in inputs]
    try:
        ds = _read_topology(*args, **kwargs)
    except Exception as e:
        print("==", tag, "reader raised", type(e).__name__, e)
        ds = None
    if ds is not None:
        digest_ds("reader " + tag, ds)
        print("   shares memory with an input:",
              {k: bool(any(np.shares_memory(ds[k].values, a) for a in inputs)) for k in ds.variables})
    node_lon, node_lat, fnc, fill_value, start_index = args
    try:
        g = ux.Grid.from_topology(node_lon, node_lat, fnc, fill_value=fill_value, start_index=start_index, **kwargs)
        digest_ds("grid " + tag, g._ds)
        print("   spec", g.source_grid_spec, g.n_face, g.n_node, g.n_max_face_nodes)
        print("   n_nodes_per_face", g.n_nodes_per_face.values.tolist())
    except Exception as e:
        print("   grid raised", type(e).__name__, e)
    print("   inputs untouched:", all(np.array_equal(a, b, equal_nan=(a.dtype.kind == "f")) and a.dtype == b.dtype
                                     for a, b in zip(inputs, snaps)))


# dialects: fill value x start index x storage type
for fill in (-1, 0, 999, INT_FILL_VALUE, np.nan, -1.0):
    for start in (0, 1):
        if fill == 0 and start == 0:
            continue    # 0 would be both a node and the padding
        for dt in (np.int32, np.int64, np.float64):
            if isinstance(fill, float) and np.isnan(fill) and dt is not np.float64:
                continue
            if fill == INT_FILL_VALUE and dt is np.int32:
                continue
            tag = f"fill={fill!r} start={start} dtype={np.dtype(dt).name}"
            run(tag, LON360, LAT, padded(FACES, fill, start, dt), fill, start)

# no padding at all -> fill_value None
TRIS = [[0, 1, 2], [2, 1, 3], [15, 14, 13]]
for start in (0, 1):
    for dt in (np.int32, np.int64, np.uint8, np.float64):
        run(f"no fill start={start} dtype={np.dtype(dt).name}", LON180, LAT, padded(TRIS, -1, start, dt), None, start)
run("no fill, list input", LON180.tolist(), LAT.tolist(), TRIS, None, 0)
run("fill -1, list input", LON180.tolist(), LAT.tolist(), [[0, 1, 2, -1], [2, 1, 3, 4]], -1, 0)
run("numpy scalar fill / start", LON360, LAT, padded(FACES, -1, 1, np.int32), np.int32(-1), np.int64(1))
run("wider than needed", LON360, LAT, padded(FACES, -1, 1, np.int64, width=11), -1, 1)

# optional variables through kwargs: every coordinate family and several connectivities, in scrambled keyword order
extra = dict(
    face_z=rng.normal(size=len(FACES)),
    edge_node_connectivity=padded(EDGES, -1, 1, np.int32),
    node_x=rng.normal(size=N_NODE),
    face_lat=rng.uniform(-90, 90, len(FACES)),
    edge_face_connectivity=padded(EDGE_FACES, -1, 1, np.int64),
    node_z=rng.normal(size=N_NODE),
    face_lon=rng.uniform(0, 360, len(FACES)),
    edge_lon=rng.uniform(0, 360, len(EDGES)),
    node_y=rng.normal(size=N_NODE),
    edge_lat=rng.uniform(-90, 90, len(EDGES)),
    face_x=rng.normal(size=len(FACES)),
    face_y=rng.normal(size=len(FACES)),
    edge_x=rng.normal(size=len(EDGES)), edge_y=rng.normal(size=len(EDGES)), edge_z=rng.normal(size=len(EDGES)),
    not_a_ugrid_name=np.arange(3),
)
run("kwargs fill=-1 start=1", LON360, LAT, padded(FACES, -1, 1, np.int32), -1, 1, **extra)
extra0 = dict(extra)
extra0["edge_node_connectivity"] = padded(EDGES, 77, 0, np.float64)
extra0["edge_face_connectivity"] = padded(EDGE_FACES, 77, 0, np.int32)
run("kwargs fill=77 start=0", LON180, LAT, padded(FACES, 77, 0, np.int64), 77, 0, **extra0)
extra_nan = dict(extra)
extra_nan["edge_node_connectivity"] = padded(EDGES, np.nan, 1, np.float64)
extra_nan["edge_face_connectivity"] = padded(EDGE_FACES, np.nan, 1, np.float64)
run("kwargs fill=nan start=1", LON360, LAT, padded(FACES, np.nan, 1, np.float64), np.nan, 1, **extra_nan)
extra_none = {"edge_node_connectivity": padded(EDGES, -1, 1, np.int32), "node_face_connectivity": np.arange(1, N_NODE + 1).reshape(-1, 1) % 3 + 1}
run("kwargs no fill start=1", LON180, LAT, padded(TRIS, -1, 1, np.int32), None, 1, **extra_none)

# duplicate spelling of a positional through kwargs is a TypeError at the call
try:
    _read_topology(LON180, LAT, padded(TRIS, -1, 0, np.int32), None, 0, node_lon=LON180)
except Exception as e:
    print("duplicate node_lon:", type(e).__name__, e)
# wrong shapes / unsupported values
run("conn 1-D", LON180, LAT, np.array([0, 1, 2]), -1, 0)
run("conn of strings", LON180, LAT, np.array([["a", "b", "c"]]), -1, 0)
run("conn of strings no fill", LON180, LAT, np.array([["a", "b", "c"]]), None, 0)
run("node_lon wrong length", LON180[:5], LAT, padded(TRIS, -1, 0, np.int32), -1, 0)

# through the public entry point with a dims_dict
g = ux.Grid.from_topology(LON360, LAT, padded(FACES, -1, 1, np.int32), fill_value=-1, start_index=1,
                          dims_dict={"nVertices": "n_node"}, face_lon=extra["face_lon"], face_lat=extra["face_lat"])
digest_ds("public from_topology", g._ds)
print("   ", g.source_grid_spec, g._source_dims_dict, g.n_face, g.n_node)
g2 = ux.open_grid({"node_lon": LON360, "node_lat": LAT, "face_node_connectivity": padded(FACES, INT_FILL_VALUE, 0, np.int64)}) \
    if hasattr(ux, "open_grid") else None
try:
    digest_ds("open_grid(dict)", g2._ds)
except Exception as e:
    print("open_grid(dict) raised", type(e).__name__, e)
