import sys, os; sys.path.insert(0, os.getcwd())
# set iteration order (it shows up in some xarray error messages) depends on string hashing: pin it
if os.environ.get("PYTHONHASHSEED") != "0":
    os.environ["PYTHONHASHSEED"] = "0"
    os.execv(sys.executable, [sys.executable] + sys.argv)
import warnings; warnings.filterwarnings("ignore")
import hashlib
import numpy as np
import xarray as xr
import dask.array as da
import uxarray as ux
assert os.path.abspath(ux.__file__).startswith(os.path.abspath(os.getcwd()) + os.sep), ux.__file__
from uxarray.constants import INT_FILL_VALUE as F
from uxarray.remap.nearest_neighbor import _nearest_neighbor, _nearest_neighbor_uxda, _nearest_neighbor_uxds


def digest(a):
    a = np.asarray(a)
    return f"{a.dtype}{a.shape}:{hashlib.sha1(np.ascontiguousarray(a).tobytes()).hexdigest()[:16]}"


def show(tag, r, grid=None):
    line = f"{tag}: {type(r).__module__}.{type(r).__name__}"
    if isinstance(r, xr.DataArray):
        line += f" name={r.name!r} dims={r.dims} sizes={dict(r.sizes)}"
        line += f" coords={[(str(k), v.dims, digest(v.values)) for k, v in sorted(r.coords.items(), key=lambda kv: str(kv[0]))]}"
        line += f" attrs={dict(r.attrs)} chunked={r.chunks is not None} {digest(r.values)}"
        if r.size <= 24:
            line += f" vals={np.asarray(r.values).tolist()!r}"
        g = getattr(r, "uxgrid", None)
        if grid is not None:
            line += f" dest_grid_attached={g is grid}"
        if g is not None:
            for dim, n in (("n_node", g.n_node), ("n_edge", g.n_edge), ("n_face", g.n_face)):
                if dim in r.dims:
                    line += f" {dim}_ok={r.sizes[dim] == n}"
    elif isinstance(r, xr.Dataset):
        line += f" vars={list(r.data_vars)} sizes={dict(r.sizes)}"
        if grid is not None:
            line += f" dest_grid_attached={getattr(r, 'uxgrid', None) is grid}"
        for k in r.data_vars:
            v = r[k]
            line += f" | {k}: {type(v).__name__} dims={v.dims} {digest(v.values)} grid={getattr(v, 'uxgrid', None) is grid}"
    elif isinstance(r, np.ndarray):
        line += " " + digest(r)
        if r.size <= 24:
            line += f" vals={r.tolist()!r}"
    else:
        line += f" {r!r}"
    print(line)


def attempt(tag, fn, grid=None):
    try:
        r = fn()
    except Exception as e:  # noqa
        print(f"{tag}: RAISED {type(e).__name__}: {str(e)[:200]}")
        return None
    show(tag, r, grid)
    return r


def mixed_grid():
    lon = np.array([0.0, 10.0, 20.0, 0.0, 10.0, 20.0, 5.0, 15.0])
    lat = np.array([0.0, 0.0, 0.0, 10.0, 10.0, 10.0, 18.0, 18.0])
    fnc = np.array([[0, 1, 4, 3], [1, 2, 5, 4], [3, 4, 6, F], [4, 5, 7, F]])
    return ux.Grid.from_topology(lon, lat, fnc, fill_value=F)


def tri_grid():
    lon = np.array([1.0, 11.0, 6.0, 16.0])
    lat = np.array([1.0, 1.0, 9.0, 9.0])
    fnc = np.array([[0, 1, 2], [1, 3, 2]])
    return ux.Grid.from_topology(lon, lat, fnc)


def square_grid():
    # n_node == n_edge == ... a single quad: n_node = n_edge = 4, n_face = 1 (element counts coincide)
    lon = np.array([2.0, 12.0, 12.0, 2.0])
    lat = np.array([2.0, 2.0, 12.0, 12.0])
    return ux.Grid.from_topology(lon, lat, np.array([[0, 1, 2, 3]]))


rng = np.random.default_rng(1010)
grids = {"mixed": mixed_grid(), "tri": tri_grid(), "square": square_grid(),
         "geoflow": ux.open_grid("test/meshfiles/ugrid/geoflow-small/grid.nc")}
REMAP_TO = ["nodes", "edge centers", "face centers"]

for sname, sg in grids.items():
    print(f"== source {sname}: n_node={sg.n_node} n_edge={sg.n_edge} n_face={sg.n_face}")
    srcs = {}
    for dim, n in (("n_node", sg.n_node), ("n_edge", sg.n_edge), ("n_face", sg.n_face)):
        srcs[f"{dim}/f64_1d"] = ux.UxDataArray(rng.normal(size=n), dims=[dim], uxgrid=sg, name="a")
        srcs[f"{dim}/i32_2d"] = ux.UxDataArray(rng.integers(-9, 9, size=(3, n)).astype(np.int32), dims=["time", dim],
                                               uxgrid=sg, name="b", coords={"time": [10, 20, 30]}, attrs={"units": "K"})
        srcs[f"{dim}/bool_3d"] = ux.UxDataArray(rng.integers(0, 2, size=(2, 2, n)).astype(bool), dims=["t", "lev", dim],
                                                uxgrid=sg)
        srcs[f"{dim}/dask_2d"] = ux.UxDataArray(da.from_array(rng.normal(size=(2, n)), chunks=(1, n)),
                                                dims=["step", dim], uxgrid=sg, name="d")
    for dname, dg in grids.items():
        if "geoflow" in (sname, dname) and sname != dname and (sname, dname) not in (("geoflow", "mixed"), ("mixed", "geoflow")):
            continue
        for key, uxda in srcs.items():
            for remap_to in REMAP_TO:
                for coord_type in ("spherical", "cartesian"):
                    attempt(f"{sname}->{dname}/{key}/{remap_to}/{coord_type}",
                            lambda: uxda.remap.nearest_neighbor(dg, remap_to, coord_type), dg)
    dg = grids["mixed"] if sname != "mixed" else grids["tri"]
    a = srcs["n_face/i32_2d"]
    n1 = srcs["n_node/f64_1d"]
    # default arguments, keyword arguments, direct helper calls
    attempt(f"{sname}/defaults", lambda: a.remap.nearest_neighbor(dg), dg)
    attempt(f"{sname}/kw", lambda: a.remap.nearest_neighbor(destination_grid=dg, coord_type="cartesian", remap_to="nodes"), dg)
    attempt(f"{sname}/direct uxda defaults", lambda: _nearest_neighbor_uxda(n1, dg), dg)
    attempt(f"{sname}/direct uxda kw", lambda: _nearest_neighbor_uxda(source_uxda=n1, destination_grid=dg, remap_to="edge centers"), dg)
    # invalid / unusual arguments
    attempt(f"{sname}/bad remap_to", lambda: a.remap.nearest_neighbor(dg, "bogus"), dg)
    attempt(f"{sname}/bad remap_to cart", lambda: a.remap.nearest_neighbor(dg, "bogus", "cartesian"), dg)
    attempt(f"{sname}/None remap_to", lambda: a.remap.nearest_neighbor(dg, None), dg)
    attempt(f"{sname}/list remap_to", lambda: a.remap.nearest_neighbor(dg, ["nodes"]), dg)
    attempt(f"{sname}/np.str_ remap_to", lambda: a.remap.nearest_neighbor(dg, np.str_("nodes")), dg)
    attempt(f"{sname}/bad coord_type", lambda: a.remap.nearest_neighbor(dg, "nodes", "polar"), dg)
    attempt(f"{sname}/bad coord_type+remap", lambda: a.remap.nearest_neighbor(dg, "bogus", "polar"), dg)
    # element dimension not last; no grid dimension; zero-dimensional
    attempt(f"{sname}/transposed", lambda: a.transpose("n_face", "time").remap.nearest_neighbor(dg, "nodes"), dg)
    attempt(f"{sname}/no grid dim", lambda: ux.UxDataArray(np.arange(5.0), dims=["x"], uxgrid=sg).remap.nearest_neighbor(dg), dg)
    attempt(f"{sname}/wrong length", lambda: ux.UxDataArray(np.arange(sg.n_face + 1.0), dims=["n_face"], uxgrid=sg).remap.nearest_neighbor(dg), dg)
    attempt(f"{sname}/0-d", lambda: ux.UxDataArray(np.float64(3.0), uxgrid=sg).remap.nearest_neighbor(dg, "nodes"), dg)
    attempt(f"{sname}/0-d bogus", lambda: ux.UxDataArray(np.float64(3.0), uxgrid=sg).remap.nearest_neighbor(dg, "bogus"), dg)
    # coordinates on the element dimension travel with the source (conflict with the new length)
    wc = ux.UxDataArray(np.arange(sg.n_face, dtype=float), dims=["n_face"], uxgrid=sg, name="wc",
                        coords={"fid": ("n_face", np.arange(sg.n_face))})
    attempt(f"{sname}/elem coord same dim", lambda: wc.remap.nearest_neighbor(sg, "face centers"), sg)
    attempt(f"{sname}/elem coord other dim", lambda: wc.remap.nearest_neighbor(dg, "nodes"), dg)
    # array-level function called positionally (as the test-suite does) and by keyword
    attempt(f"{sname}/array pos", lambda: _nearest_neighbor(sg, dg, n1.values, "nodes", "spherical"))
    attempt(f"{sname}/array pos list", lambda: _nearest_neighbor(sg, dg, list(n1.values), "face centers", "cartesian"))
    attempt(f"{sname}/array kw", lambda: _nearest_neighbor(source_grid=sg, destination_grid=dg, source_data=a.values,
                                                           remap_to="edge centers", source_data_mapping="face centers"))
    attempt(f"{sname}/array defaults", lambda: _nearest_neighbor(sg, dg, a.values))
    attempt(f"{sname}/array bad shape", lambda: _nearest_neighbor(sg, dg, np.arange(sg.n_node + sg.n_edge + 7.0)))
    attempt(f"{sname}/array bad mapping", lambda: _nearest_neighbor(sg, dg, a.values, source_data_mapping="bogus"))
    one = ux.Grid.from_topology(np.array([3.0, 9.0, 6.0]), np.array([3.0, 3.0, 8.0]), np.array([[0, 1, 2]]))
    attempt(f"{sname}/to single face 1d", lambda: n1.remap.nearest_neighbor(one, "face centers"), one)
    attempt(f"{sname}/to single face 2d", lambda: a.remap.nearest_neighbor(one, "face centers"), one)
    # compositions with xarray / uxarray operations
    attempt(f"{sname}/comp1", lambda: ((a * 2 + 1).remap.nearest_neighbor(dg, "nodes") - 1).isel(time=1), dg)
    attempt(f"{sname}/comp2", lambda: a.cumsum("time").remap.nearest_neighbor(dg, "face centers").mean("time").round(2), dg)
    attempt(f"{sname}/comp3", lambda: a.remap.nearest_neighbor(dg, "nodes").topological_mean("face").gradient(), dg)
    attempt(f"{sname}/comp4", lambda: a.remap.nearest_neighbor(dg, "face centers").difference("edge").remap.nearest_neighbor(sg, "nodes"), sg)
    attempt(f"{sname}/comp5", lambda: a.isel(n_face=[0]).remap.nearest_neighbor(dg, "edge centers"), dg)
    attempt(f"{sname}/comp6", lambda: xr.concat([a, -a], "time").remap.nearest_neighbor(dg, "face centers").integrate(), dg)
    attempt(f"{sname}/comp7", lambda: a.copy(deep=True).remap.nearest_neighbor(dg).isel(n_face=[1, 0]), None)
    # dataset front end
    uxds = ux.UxDataset({"p": srcs["n_face/i32_2d"], "q": srcs["n_node/f64_1d"], "r": srcs["n_edge/dask_2d"]}, uxgrid=sg)
    for remap_to in REMAP_TO + ["bogus"]:
        attempt(f"{sname}/uxds {remap_to}", lambda: uxds.remap.nearest_neighbor(dg, remap_to), dg)
    attempt(f"{sname}/uxds direct", lambda: _nearest_neighbor_uxds(uxds, dg, coord_type="cartesian"), dg)
