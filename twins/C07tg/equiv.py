import sys, os

sys.path.insert(0, os.getcwd())

import hashlib
import tempfile
import warnings
from datetime import datetime as _real_datetime

import numpy as np
import xarray as xr

import uxarray
import uxarray as ux

assert os.path.abspath(uxarray.__file__).startswith(os.path.abspath(os.getcwd()) + os.sep), (
    uxarray.__file__
)

import uxarray.io._exodus as _exo
from uxarray.constants import INT_DTYPE, INT_FILL_VALUE

warnings.filterwarnings("ignore")


# the encoder stamps the current date/time into the output: freeze the clock
class _FrozenDateTime:
    @staticmethod
    def now():
        return _real_datetime(2020, 1, 2, 3, 4, 5)


_exo.datetime = _FrozenDateTime


def h(a):
    a = np.ascontiguousarray(np.asarray(a))
    return hashlib.sha256(a.tobytes()).hexdigest()[:16]


def digest_ds(tag, ds):
    print(f"== {tag}")
    print("  type", type(ds).__name__)
    print("  dims", [(k, int(v)) for k, v in ds.sizes.items()])
    print("  coords", list(ds.coords))
    print("  attrs", [(k, type(v).__name__, repr(v)) for k, v in ds.attrs.items()])
    for name in ds.variables:
        v = ds[name]
        arr = np.asarray(v.values)
        small = repr(arr.tolist()) if arr.size <= 24 else ""
        print(
            "  var", name, v.dims, arr.dtype, arr.shape, type(v.data).__name__,
            h(arr) if arr.dtype.kind != "U" else repr(arr.tolist()),
            [(k, repr(a)) for k, a in v.attrs.items()], small,
        )


def attempt(tag, fn):
    try:
        out = fn()
    except Exception as e:  # digest the exception type and message too
        print(f"== {tag}\n  RAISES {type(e).__name__}: {e}")
        return None
    return out


def face_multiset(grid):
    """Faces as a sorted list of cyclically-normalised corner tuples."""
    lon = np.round(grid.node_lon.values, 9)
    lat = np.round(grid.node_lat.values, 9)
    faces = []
    for row in grid.face_node_connectivity.values:
        pts = [(float(lon[i]) % 360.0, float(lat[i])) for i in row if i != INT_FILL_VALUE]
        k = pts.index(min(pts))
        faces.append(tuple(pts[k:] + pts[:k]))
    return sorted(faces)


def roundtrip(tag, grid):
    """encode -> digest -> reopen (in memory and through a NetCDF file)."""
    enc = attempt(tag + " encode", lambda: grid.to_xarray("exodus"))
    if enc is None:
        return
    digest_ds(tag + " encoded", enc)
    back = attempt(tag + " reopen", lambda: ux.open_grid(enc))
    if back is not None:
        print("  reopened n_face", back.n_face, "n_node", back.n_node, "n_max", back.n_max_face_nodes)
        print("  fnc", h(back.face_node_connectivity.values), back.face_node_connectivity.dtype)
        print("  same face multiset", face_multiset(back) == face_multiset(grid))
    with tempfile.TemporaryDirectory() as td:
        p = os.path.join(td, "out.exo")
        r = attempt(tag + " to_netcdf", lambda: enc.to_netcdf(p))
        if os.path.exists(p):
            back2 = attempt(tag + " reopen file", lambda: ux.open_grid(p))
            if back2 is not None:
                print("  file fnc", h(back2.face_node_connectivity.values))
                print("  file same face multiset", face_multiset(back2) == face_multiset(grid))
                digest_ds(tag + " file internal ds", back2._ds)


here = os.getcwd()
mesh = os.path.join(here, "test", "meshfiles")

# ---------------------------------------------------------------- 1. hand made grids
lon = np.array([0.0, 10.0, 20.0, 30.0, 0.0, 10.0, 20.0, 30.0, 15.0, 25.0, 5.0])
lat = np.array([0.0, 0.0, 0.0, 0.0, 10.0, 10.0, 10.0, 10.0, 20.0, 18.0, 22.0])
F = INT_FILL_VALUE

cases = {
    "tri_only": np.array([[0, 1, 5], [0, 5, 4], [1, 2, 6]], dtype=INT_DTYPE),
    "quad_only": np.array([[0, 1, 5, 4], [1, 2, 6, 5], [2, 3, 7, 6]], dtype=INT_DTYPE),
    "mixed_tri_quad": np.array(
        [[0, 1, 5, 4], [1, 2, 6, F], [2, 3, 7, 6], [5, 6, 8, F], [1, 6, 5, F]], dtype=INT_DTYPE
    ),
    "mixed_3_4_5_6": np.array(
        [
            [0, 1, 5, 4, F, F],
            [5, 6, 9, 8, 10, 4],
            [1, 2, 6, F, F, F],
            [2, 3, 7, 9, 6, F],
            [1, 6, 5, F, F, F],
            [6, 7, 9, F, F, F],
        ],
        dtype=INT_DTYPE,
    ),
    # widest column never used (padding column only)
    "padded_quads": np.array([[0, 1, 5, 4, F], [1, 2, 6, 5, F]], dtype=INT_DTYPE),
    "single_face": np.array([[4, 5, 8]], dtype=INT_DTYPE),
    # int32 connectivity with the int64 fill value is not representable; use int64 interleaved sizes
    "interleaved": np.array(
        [[0, 1, 5, F, F], [0, 1, 5, 4, F], [5, 6, 9, 8, 10], [1, 2, 6, F, F], [1, 2, 6, 5, F]],
        dtype=INT_DTYPE,
    ),
}

for name, conn in cases.items():
    g = ux.Grid.from_topology(node_lon=lon, node_lat=lat, face_node_connectivity=conn, fill_value=F)
    roundtrip("lonlat " + name, g)

# the same grid after derived quantities were materialised
g = ux.Grid.from_topology(
    node_lon=lon, node_lat=lat, face_node_connectivity=cases["mixed_3_4_5_6"], fill_value=F
)
_ = g.edge_node_connectivity
_ = g.face_edge_connectivity
_ = g.node_x
_ = g.face_lon
_ = g.face_areas
_ = g.bounds
roundtrip("derived mixed_3_4_5_6", g)

# ---------------------------------------------------------------- 2. direct calls of the encoder / reader
ds_min = xr.Dataset(
    {
        "node_lon": (("n_node",), lon),
        "node_lat": (("n_node",), lat),
        "face_node_connectivity": (("n_face", "n_max_face_nodes"), cases["mixed_tri_quad"]),
    }
)
for outfile in (None, "", "some/dir/mesh.exo", "mesh.g"):
    enc = attempt(f"direct outfile={outfile!r}", lambda: _exo._encode_exodus(ds_min, outfile=outfile))
    if enc is not None:
        digest_ds(f"direct outfile={outfile!r}", enc)
enc = attempt("direct positional default", lambda: _exo._encode_exodus(ds_min))
digest_ds("direct positional default", enc)

# int32 connectivity (astype(INT_DTYPE) inside the encoder), float connectivity
ds32 = ds_min.copy(deep=True)
ds32["face_node_connectivity"] = (("n_face", "n_max_face_nodes"), cases["quad_only"].astype(np.int32))
digest_ds("direct int32", attempt("direct int32", lambda: _exo._encode_exodus(ds32)))

# xyz-bearing source: node_x/y/z are used as they are
x = np.cos(np.deg2rad(lat)) * np.cos(np.deg2rad(lon))
y = np.cos(np.deg2rad(lat)) * np.sin(np.deg2rad(lon))
z = np.sin(np.deg2rad(lat))
ds_xyz = ds_min.copy(deep=True)
ds_xyz["node_x"] = (("n_node",), x)
ds_xyz["node_y"] = (("n_node",), y)
ds_xyz["node_z"] = (("n_node",), z)
digest_ds("direct xyz", attempt("direct xyz", lambda: _exo._encode_exodus(ds_xyz)))
ds_xyz_only = ds_xyz.drop_vars(["node_lon", "node_lat"])
digest_ds("direct xyz only", attempt("direct xyz only", lambda: _exo._encode_exodus(ds_xyz_only)))

# awkward: an all-fill row, a fill value in the middle of a row, faces wider than 8, no faces, missing vars
bad = {
    "all_fill_row": np.array([[0, 1, 5, 4], [F, F, F, F]], dtype=INT_DTYPE),
    "fill_in_middle": np.array([[0, 1, 5, 4], [1, 2, F, 6]], dtype=INT_DTYPE),
    "leading_fill": np.array([[0, 1, 5, 4], [F, 2, 6, 5]], dtype=INT_DTYPE),
    "nine_gon": np.array([[0, 1, 2, 3, 7, 9, 8, 10, 4]], dtype=INT_DTYPE),
    "two_nodes": np.array([[0, 1, F], [0, 1, 5]], dtype=INT_DTYPE),
    "no_faces": np.zeros((0, 4), dtype=INT_DTYPE),
}
for name, conn in bad.items():
    d = ds_min.copy(deep=True).drop_vars("face_node_connectivity")
    d["face_node_connectivity"] = (("n_face", "n_max_face_nodes"), conn)
    enc = attempt("awkward " + name, lambda: _exo._encode_exodus(d))
    if enc is not None:
        digest_ds("awkward " + name, enc)
        back = attempt("awkward " + name + " read", lambda: _exo._read_exodus(enc))
        if back is not None:
            digest_ds("awkward " + name + " read", back[0])
            print("  dims dict", back[1])
attempt("missing conn", lambda: _exo._encode_exodus(ds_min.drop_vars("face_node_connectivity")))
attempt("missing coords", lambda: _exo._encode_exodus(ds_min.drop_vars("node_lon")))
d = ds_min.rename({"n_max_face_nodes": "nv"})
attempt("other dim name", lambda: _exo._encode_exodus(d))

# element type helper
for n in (-1, 0, 1, 2, 3, 4, 5, 6, 7, 8, 9, np.int64(4), 4.0, "4"):
    print("etype", repr(n), attempt(f"etype {n!r}", lambda: _exo._get_element_type(n)))

# ---------------------------------------------------------------- 3. reader on hand made exodus datasets
def exo_ds(blocks, coord=None, split=False, ndim=3, dimnames=None):
    d = xr.Dataset()
    nn = 11
    xyz = np.vstack([x, y, z])[:ndim]
    if split:
        d["coordx"] = (("num_nodes",), x)
        d["coordy"] = (("num_nodes",), y)
        d["coordz"] = (("num_nodes",), z)
        d["dummy"] = (("num_dim",), np.zeros(ndim))
    else:
        d["coord"] = (("num_dim", "num_nodes"), xyz)
    for i, b in enumerate(blocks, start=1):
        dn = (f"num_el_in_blk{i}", f"num_nod_per_el{i}") if dimnames is None else dimnames[i - 1]
        d[f"connect{i}"] = (dn, b)
    return d


tri = np.array([[1, 2, 6], [2, 3, 7]], dtype=np.int32)
quad = np.array([[1, 2, 6, 5], [2, 3, 7, 6], [3, 4, 8, 7]], dtype=np.int64)
pent = np.array([[6, 7, 10, 9, 11]], dtype=np.int64)
reader_cases = {
    "tri": exo_ds([tri]),
    "quad_then_tri": exo_ds([quad, tri]),
    "tri_quad_pent": exo_ds([tri, quad, pent]),
    "pent_tri": exo_ds([pent, tri.astype(np.int64)]),
    "split coords": exo_ds([tri, quad], split=True),
    "padded block": exo_ds([np.array([[1, 2, 6, 0], [2, 3, 7, 6]], dtype=np.int64), tri]),
    "float block": exo_ds([quad.astype(np.float64), tri]),
    "no connect": exo_ds([]),
    "two dims": exo_ds([tri], ndim=2),
    "odd dim names": exo_ds([tri, quad], dimnames=[("a", "num_nod_per_el1"), ("b", "wide")]),
    "no per-el dims": exo_ds([tri], dimnames=[("a", "b")]),
    "empty block": exo_ds([np.zeros((0, 3), dtype=np.int64), quad]),
}
for name, d in reader_cases.items():
    out = attempt("reader " + name, lambda: _exo._read_exodus(d))
    if out is not None:
        digest_ds("reader " + name, out[0])
        print("  dims dict", out[1])

# ---------------------------------------------------------------- 4. file based grids, history of other encodings
files = [
    ("exodus/mixed/mixed.exo", {}),
    ("exodus/outCSne8/outCSne8.g", {}),
    ("scrip/outCSne8/outCSne8.nc", {}),
    ("ugrid/quad-hexagon/grid.nc", {}),
    ("ugrid/geoflow-small/grid.nc", {}),
    ("mpas/QU/oQU480.231010.nc", {}),
    ("ugrid/outCSne30/outCSne30.ug", {}),
    ("mpas/QU/mesh.QU.1920km.151026.nc", {}),
]
for rel, kw in files:
    p = os.path.join(mesh, rel)
    if not os.path.exists(p):
        print("missing file", rel)
        continue
    g = attempt("open " + rel, lambda: ux.open_grid(p, **kw))
    if g is None:
        continue
    roundtrip("file " + rel, g)
    # the raw file through the reader
    if rel.startswith("exodus"):
        raw = xr.open_dataset(p)
        out = attempt("raw reader " + rel, lambda: _exo._read_exodus(raw))
        if out is not None:
            digest_ds("raw reader " + rel, out[0])

# a smaller grid encoded after bigger ones, and the first one again
g_small = ux.Grid.from_topology(node_lon=lon, node_lat=lat, face_node_connectivity=cases["tri_only"], fill_value=F)
roundtrip("after history tri_only", g_small)
with warnings.catch_warnings():
    warnings.simplefilter("ignore")
    digest_ds("encode_as", attempt("encode_as", lambda: g_small.encode_as("Exodus")))

# the source dataset is left alone by the encoder
before = {k: h(v.values) for k, v in ds_min.variables.items()}
_exo._encode_exodus(ds_min)
print("source untouched", before == {k: h(v.values) for k, v in ds_min.variables.items()}, list(ds_min.variables))
