import sys, os

sys.path.insert(0, os.getcwd())

import hashlib
import warnings

import numpy as np

import uxarray
import uxarray as ux

assert os.path.abspath(uxarray.__file__).startswith(os.path.abspath(os.getcwd()) + os.sep), (
    uxarray.__file__
)

from uxarray.constants import INT_DTYPE, INT_FILL_VALUE
from uxarray.core.gradient import (
    _calculate_edge_face_difference,
    _calculate_grad_on_edge_from_faces,
)

warnings.filterwarnings("ignore")
np.set_printoptions(threshold=10_000, linewidth=200)

F = INT_FILL_VALUE


def digest(label, a):
    a = np.asarray(a)
    h = hashlib.sha256(np.ascontiguousarray(a).tobytes()).hexdigest()[:16]
    print(
        f"{label}: dtype={a.dtype} shape={a.shape} C={a.flags.c_contiguous} "
        f"W={a.flags.writeable} own={a.flags.owndata} sha={h}"
    )
    if a.size <= 60:
        print("   ", repr(a).replace("\n", "\n    "))


def attempt(label, fn):
    try:
        digest(label, fn())
    except Exception as e:  # same exceptions are part of the contract
        print(f"{label}: EXC {type(e).__name__}: {e}")


# ---------------------------------------------------------------- direct calls
print("== direct calls of _calculate_edge_face_difference")
ef_mixed = np.array([[0, 1], [1, F], [2, 0], [3, F], [1, 3], [2, F]], dtype=INT_DTYPE)
ef_all_pad = np.array([[0, F], [1, F], [2, F]], dtype=INT_DTYPE)
ef_none_pad = np.array([[0, 1], [1, 2], [2, 3], [3, 0]], dtype=INT_DTYPE)
ef_no_face = np.array([[F, F], [0, 1], [F, F]], dtype=INT_DTYPE)  # edge with no face at all
ef_empty = np.empty((0, 2), dtype=INT_DTYPE)
ef_same = np.array([[2, 2], [0, F]], dtype=INT_DTYPE)  # same face on both sides
ef_fortran = np.asfortranarray(ef_mixed)

d_float = np.array([1.5, -2.25, 1e300, -0.0])
d_nan = np.array([np.nan, 1.0, np.inf, -np.inf])
d_int = np.array([3, -7, 11, 2], dtype=np.int64)
d_uint8 = np.array([3, 250, 11, 2], dtype=np.uint8)
d_f32 = np.array([0.1, 0.2, 0.3, 0.4], dtype=np.float32)
d_bool_like = np.array([1, 0, 1, 1], dtype=np.int8)
d_2d = np.arange(12, dtype=np.float64).reshape(3, 4) ** 1.5
d_3d = np.sin(np.arange(24, dtype=np.float64)).reshape(2, 3, 4)
d_2d_f = np.asfortranarray(d_2d)
d_zero_lead = np.empty((0, 4))

tables = {
    "mixed": ef_mixed,
    "all_pad": ef_all_pad,
    "none_pad": ef_none_pad,
    "no_face": ef_no_face,
    "empty": ef_empty,
    "same": ef_same,
    "fortran": ef_fortran,
}
fields = {
    "float": d_float,
    "nan": d_nan,
    "int": d_int,
    "uint8": d_uint8,
    "f32": d_f32,
    "int8": d_bool_like,
    "2d": d_2d,
    "3d": d_3d,
    "2d_f": d_2d_f,
    "zero_lead": d_zero_lead,
}
for tn, t in tables.items():
    for fn_, f in fields.items():
        t_before = t.copy()
        f_before = f.copy()
        attempt(f"diff[{tn},{fn_}]", lambda: _calculate_edge_face_difference(f, t, t.shape[0]))
        assert np.array_equal(t, t_before) and np.array_equal(f, f_before, equal_nan=True)

# result must be a fresh array each time, never an alias of an input
r1 = _calculate_edge_face_difference(d_float, ef_all_pad, 3)
r2 = _calculate_edge_face_difference(d_float, ef_all_pad, 3)
print("fresh:", r1 is not r2, not np.shares_memory(r1, r2), not np.shares_memory(r1, d_float))
r1[0] = 99.0
print("fresh after write:", r2[0])

print("== direct calls of _calculate_grad_on_edge_from_faces")
dist = np.array([0.5, 0.0, 2.0, 0.0, 0.25, 0.0])
for norm in (False, True):
    for fn_ in ("float", "int", "2d", "3d"):
        attempt(
            f"grad[mixed,{fn_},norm={norm}]",
            lambda: _calculate_grad_on_edge_from_faces(
                fields[fn_], ef_mixed, 6, dist, normalize=norm
            ),
        )
    attempt(
        f"grad[all_pad,float,norm={norm}]",
        lambda: _calculate_grad_on_edge_from_faces(
            d_float, ef_all_pad, 3, np.zeros(3), normalize=norm
        ),
    )


# ---------------------------------------------------------------- through grids
def mixed_grid():
    """Two triangles and a quad sharing edges, one pentagon, one isolated
    triangle; face rows padded with the fill value."""
    lon = np.array([0, 10, 20, 0, 10, 20, 30, 30, 25, 60, 70, 65], dtype=float)
    lat = np.array([0, 0, 0, 10, 10, 10, 0, 10, 18, 40, 40, 50], dtype=float)
    fnc = np.array(
        [
            [0, 1, 4, 3, F],  # quad
            [1, 2, 4, F, F],  # triangle
            [2, 5, 4, F, F],  # triangle
            [2, 6, 7, 8, 5],  # pentagon
            [9, 10, 11, F, F],  # isolated triangle
        ],
        dtype=INT_DTYPE,
    )
    return ux.Grid.from_topology(lon, lat, fnc, fill_value=F)


def single_face_grid():
    lon = np.array([0.0, 10.0, 5.0])
    lat = np.array([0.0, 0.0, 10.0])
    return ux.Grid.from_topology(lon, lat, np.array([[0, 1, 2]], dtype=INT_DTYPE), fill_value=F)


def closed_grid():
    """Tetrahedron on the sphere: no hole edge at all."""
    lon = np.array([0.0, 120.0, -120.0, 0.0])
    lat = np.array([-30.0, -30.0, -30.0, 90.0])
    fnc = np.array([[0, 1, 2], [0, 1, 3], [1, 2, 3], [2, 0, 3]], dtype=INT_DTYPE)
    return ux.Grid.from_topology(lon, lat, fnc, fill_value=F)


print("== through UxDataArray.difference / gradient")
grids = {
    "mixed": mixed_grid(),
    "single": single_face_grid(),
    "closed": closed_grid(),
    "mpas": ux.open_grid("test/meshfiles/mpas/QU/mesh.QU.1920km.151026.nc"),
    "exo_mixed": ux.open_grid("test/meshfiles/exodus/mixed/mixed.exo"),
    "ne8": ux.open_grid("test/meshfiles/exodus/outCSne8/outCSne8.g"),
}
rng = np.random.default_rng(20240603)
for gn, g in grids.items():
    digest(f"{gn}.edge_face_connectivity", g.edge_face_connectivity.values)
    digest(f"{gn}.hole_edge_indices", g.hole_edge_indices.values)
    vals1 = rng.normal(size=g.n_face)
    vals2 = rng.integers(-50, 50, size=(2, 3, g.n_face))
    for vn, vals, dims in (
        ("1d", vals1, ["n_face"]),
        ("3d_int", vals2, ["time", "lev", "n_face"]),
    ):
        uxda = ux.UxDataArray(vals, dims=dims, uxgrid=g, name="v")
        out = uxda.difference(destination="edge")
        print(f"{gn}.{vn}.difference dims={out.dims} name={out.name}")
        digest(f"{gn}.{vn}.difference", out.values)
        # hole edges get exactly zero
        print("    zero on hole edges:", bool(np.all(out.values[..., g.hole_edge_indices.values] == 0)))
        for norm in (False, True):
            try:
                gr = uxda.gradient(normalize=norm)
                digest(f"{gn}.{vn}.gradient(norm={norm})", gr.values)
            except Exception as e:
                print(f"{gn}.{vn}.gradient(norm={norm}): EXC {type(e).__name__}: {e}")
    # the connectivity tables were only read
    digest(f"{gn}.edge_face_connectivity(after)", g.edge_face_connectivity.values)

if os.path.exists("grid_geoflow.exo"):
    os.remove("grid_geoflow.exo")
