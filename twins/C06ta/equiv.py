import sys, os

sys.path.insert(0, os.getcwd())

import hashlib
import warnings

import numpy as np
import xarray as xr

import uxarray as ux
from uxarray.grid.area import get_all_face_area_from_coords

assert os.path.abspath(ux.__file__).startswith(os.path.abspath(os.getcwd()) + os.sep), ux.__file__

warnings.filterwarnings("ignore")
np.set_printoptions(precision=17)


def digest(arr):
    arr = np.asarray(arr)
    return "%s %s %s" % (
        arr.dtype,
        arr.shape,
        hashlib.sha256(np.ascontiguousarray(arr).tobytes()).hexdigest()[:16],
    )


def show(label, fn):
    try:
        res = fn()
    except Exception as exc:  # noqa
        msg = str(exc).strip().splitlines()
        print(label, "-> EXC", type(exc).__name__, msg[0] if msg else "")
        return None
    print(label, "->", res)
    return res


def describe(res, src):
    return (
        type(res).__name__,
        res.dims,
        res.name,
        res.uxgrid is src.uxgrid,
        digest(res.values),
        repr(res.values.ravel()[:3].tolist()),
    )


MESH = os.path.join(os.getcwd(), "test", "meshfiles")
GRIDS = {
    "quadhex": os.path.join(MESH, "ugrid", "quad-hexagon", "grid.nc"),
    "mixed_exo": os.path.join(MESH, "exodus", "mixed", "mixed.exo"),
    "mpas": os.path.join(MESH, "mpas", "QU", "mesh.QU.1920km.151026.nc"),
    "geoflow": os.path.join(MESH, "ugrid", "geoflow-small", "grid.nc"),
    "csne8": os.path.join(MESH, "scrip", "outCSne8", "outCSne8.nc"),
}

RULES = [
    ("triangular", 4),
    ("triangular", 1),
    ("triangular", 8),
    ("gaussian", 1),
    ("gaussian", 4),
    ("gaussian", 7),
]


def make_da(grid, shape_lead, last_dim, n_last, dtype, seed, name="var", lead_names=None):
    rng = np.random.default_rng(seed)
    shape = tuple(shape_lead) + (n_last,)
    data = rng.normal(size=shape) * 10
    if np.dtype(dtype) == np.bool_:
        data = data > 0
    else:
        data = data.astype(dtype)
    if lead_names is None:
        lead_names = ["time", "lev", "ens"][: len(shape_lead)]
    dims = list(lead_names) + [last_dim]
    return ux.UxDataArray(data, dims=dims, name=name, uxgrid=grid)


for gname, path in GRIDS.items():
    print("=" * 20, gname)
    grid = ux.open_grid(path)
    nf, nn, ne = grid.n_face, grid.n_node, grid.n_edge
    print("sizes", nf, nn, ne, "max_nodes", grid.n_max_face_nodes)
    print("nodes_per_face", digest(grid.n_nodes_per_face.values))

    # --- areas with every rule, both coordinate systems
    for rule, order in RULES:
        for latlon in (True, False):
            def call():
                a, j = grid.compute_face_areas(rule, order, latlon=latlon)
                return (
                    digest(a),
                    digest(j),
                    a is grid._face_areas,
                    j is grid._face_jacobian,
                    repr(float(a.sum())),
                )
            show(f"areas {rule} {order} latlon={latlon}", call)

    # --- integrate: ranks, dtypes, rules
    seed = 0
    for lead in [(), (3,), (2, 3), (2, 1, 3)]:
        for dtype in (np.float64, np.float32, np.int32, np.int64, np.bool_):
            seed += 1
            da = make_da(grid, lead, "n_face", nf, dtype, seed, name=f"v{seed}")
            for rule, order in RULES[:: (1 if len(lead) < 2 else 3)]:
                res = show(
                    f"integrate lead={lead} {np.dtype(dtype).name} {rule} {order}",
                    lambda: describe(da.integrate(rule, order), da),
                )
            # independent weighted sum agrees (prints difference digest)
            a, _ = grid.compute_face_areas("gaussian", 4)
            ref = (da.values.astype(float) * a).sum(axis=-1)
            got = da.integrate("gaussian", 4).values
            print("  ref-diff", repr(float(np.max(np.abs(ref - got)))))

    # --- defaults and ones -> total area
    ones = ux.UxDataArray(np.ones(nf), dims=["n_face"], name=None, uxgrid=grid)
    show("ones default", lambda: describe(ones.integrate(), ones))
    show("ones default repr", lambda: repr(float(ones.integrate().values)))
    show("ones kw", lambda: describe(ones.integrate(order=2, quadrature_rule="gaussian"), ones))

    # --- caching/aliasing: integrate after face_areas property cached
    g2 = ux.open_grid(path)
    fa = g2.face_areas
    before = digest(fa.values)
    d2 = make_da(g2, (2,), "n_face", nf, np.float64, 99)
    r2 = d2.integrate("gaussian", 2)
    print("cache property unchanged", before == digest(g2.face_areas.values), g2.face_areas is not None)
    print("cache _face_areas", digest(g2._face_areas), digest(g2._face_jacobian))
    r3 = d2.integrate("triangular", 4)
    print("cache _face_areas after 2nd", digest(g2._face_areas), digest(r2.values), digest(r3.values))
    # input data untouched
    d2copy = d2.values.copy()
    d2.integrate()
    print("data untouched", np.array_equal(d2copy, d2.values))

    # --- linearity
    x1 = make_da(grid, (2,), "n_face", nf, np.float64, 5)
    x2 = make_da(grid, (2,), "n_face", nf, np.float64, 6)
    lin = (2.5 * x1 + x2).integrate().values - (2.5 * x1.integrate().values + x2.integrate().values)
    print("linearity", repr(lin.tolist()))

    # --- rejections
    show("node data", lambda: describe(make_da(grid, (2,), "n_node", nn, np.float64, 7).integrate(), ones))
    show("node data rank1", lambda: describe(make_da(grid, (), "n_node", nn, np.float64, 7).integrate(), ones))
    show("edge data", lambda: describe(make_da(grid, (2,), "n_edge", ne, np.float64, 8).integrate("gaussian", 3), ones))
    show("node-sized but face-named", lambda: describe(make_da(grid, (), "n_face", nn, np.float64, 8).integrate(), ones))
    show("face-sized other name", lambda: describe(make_da(grid, (2,), "cells", nf, np.float64, 9).integrate(), ones))
    show("odd size other name", lambda: describe(make_da(grid, (2,), "cells", nf + 5, np.float64, 9).integrate(), ones))
    show("scalar", lambda: describe(ux.UxDataArray(np.float64(3.0), uxgrid=grid, name="s").integrate(), ones))
    # face dim not last
    fnl = ux.UxDataArray(np.ones((nf, 2)), dims=["n_face", "time"], name="t", uxgrid=grid)
    show("face not last", lambda: describe(fnl.integrate(), fnl))
    fn_node = ux.UxDataArray(np.ones((nf, nn)), dims=["n_face", "n_node"], name="t", uxgrid=grid)
    show("face then node", lambda: describe(fn_node.integrate(), fn_node))
    fn_edge = ux.UxDataArray(np.ones((nf, ne)), dims=["n_face", "n_edge"], name="t", uxgrid=grid)
    show("face then edge", lambda: describe(fn_edge.integrate(), fn_edge))
    ne_nf = ux.UxDataArray(np.ones((2, nf)) if False else np.ones((nn, nf)), dims=["n_node", "n_face"], name="t", uxgrid=grid)
    show("node then face", lambda: describe(ne_nf.integrate(), ne_nf))
    en = ux.UxDataArray(np.ones((ne, nn)), dims=["n_edge", "n_node"], name="t", uxgrid=grid)
    show("edge then node", lambda: describe(en.integrate(), en))
    # bad rule / order
    show("bad rule", lambda: describe(ones.integrate("simpson", 4), ones))
    show("bad rule compute", lambda: grid.compute_face_areas("simpson", 4))

    # --- dataset integrate (deprecated path)
    uxds = ux.UxDataset({"a": make_da(grid, (), "n_face", nf, np.float64, 11)}, uxgrid=grid)
    show("dataset integrate", lambda: (type(uxds.integrate()).__name__, repr(float(uxds.integrate("gaussian", 3)))))


# ===== hand-made grids
print("=" * 20, "hand made")
# tetrahedron-like: n_face == n_node == 4
verts_deg = np.array(
    [[0.0, 90.0], [0.0, -19.47], [120.0, -19.47], [-120.0, -19.47]]
)
tet_faces = np.array([[0, 1, 2], [0, 2, 3], [0, 3, 1], [1, 3, 2]])
face_verts = verts_deg[tet_faces]
tet = ux.open_grid(face_verts.tolist(), latlon=True)
print("tet sizes", tet.n_face, tet.n_node, tet.n_edge)
for rule, order in RULES:
    show(f"tet areas {rule} {order}", lambda: tuple(repr(v) for v in tet.compute_face_areas(rule, order)[0].tolist()))
tdat = np.arange(8, dtype=np.int16).reshape(2, 4)
show("tet face", lambda: describe(ux.UxDataArray(tdat, dims=["t", "n_face"], name="q", uxgrid=tet).integrate(), ux.UxDataArray(tdat, dims=["t", "n_face"], uxgrid=tet)))
tf = ux.UxDataArray(tdat, dims=["t", "n_face"], name="q", uxgrid=tet)
show("tet face vals", lambda: repr(tf.integrate("gaussian", 5).values.tolist()))
show("tet node (same size as faces)", lambda: ux.UxDataArray(tdat, dims=["t", "n_node"], name="q", uxgrid=tet).integrate())
show("tet edge", lambda: ux.UxDataArray(np.ones(tet.n_edge), dims=["n_edge"], name="q", uxgrid=tet).integrate())

# single triangle: n_node == n_edge == 3, one face
tri = ux.open_grid([[[10.0, 10.0], [40.0, 10.0], [20.0, 45.0]]], latlon=True)
print("tri sizes", tri.n_face, tri.n_node, tri.n_edge)
tr = ux.UxDataArray(np.array([[2.0], [3.0]]), dims=["t", "n_face"], name="one", uxgrid=tri)
show("tri face", lambda: (describe(tr.integrate(), tr), repr(tr.integrate().values.tolist())))
show("tri node", lambda: ux.UxDataArray(np.ones(3), dims=["n_node"], uxgrid=tri).integrate())

# mixed face sizes with fill values, integer-valued coordinates (astype path)
fill = ux.INT_FILL_VALUE
node_lon = np.array([0, 10, 20, 0, 10, 20, 30, 30, 15], dtype=np.int64)
node_lat = np.array([0, 0, 0, 10, 10, 10, 0, 10, 20], dtype=np.int64)
fnc = np.array(
    [
        [0, 1, 4, 3, fill],
        [1, 2, 5, 4, fill],
        [2, 6, 7, 5, fill],
        [3, 4, 8, fill, fill],
        [4, 5, 7, 8, fill] if False else [4, 5, 8, fill, fill],
        [0, 1, 2, 5, 3] if False else [5, 7, 8, fill, fill],
    ],
    dtype=np.int64,
)
for coord_dtype in (np.int64, np.float64, np.float32):
    mix = ux.Grid.from_topology(
        node_lon=node_lon.astype(coord_dtype),
        node_lat=node_lat.astype(coord_dtype),
        face_node_connectivity=fnc,
        fill_value=fill,
    )
    print("mix", np.dtype(coord_dtype).name, mix.n_face, mix.n_node, mix.n_max_face_nodes, mix.n_nodes_per_face.values.tolist())
    for rule, order in RULES:
        show(f"mix areas {rule} {order}", lambda: tuple(repr(v) for v in mix.compute_face_areas(rule, order)[0].tolist()))
        show(f"mix jac {rule} {order}", lambda: tuple(repr(v) for v in mix.compute_face_areas(rule, order)[1].tolist()))
    show("mix areas cart", lambda: tuple(repr(v) for v in mix.compute_face_areas("gaussian", 4, latlon=False)[0].tolist()))
    md = ux.UxDataArray(np.arange(12).reshape(2, 6), dims=["k", "n_face"], name="m", uxgrid=mix)
    show("mix integrate", lambda: (describe(md.integrate(), md), repr(md.integrate("gaussian", 6).values.tolist())))
    show("mix coord dtype kept", lambda: (str(mix.node_lon.dtype), str(mix.node_lat.dtype)))

# clockwise face -> negative jacobian path?
cw = ux.Grid.from_topology(
    node_lon=np.array([0.0, 10.0, 10.0, 0.0]),
    node_lat=np.array([0.0, 0.0, 10.0, 10.0]),
    face_node_connectivity=np.array([[3, 2, 1, 0]]),
    fill_value=fill,
)
show("cw areas", lambda: tuple(repr(np.asarray(v).tolist()) for v in cw.compute_face_areas()))
show("cw areas gauss", lambda: tuple(repr(np.asarray(v).tolist()) for v in cw.compute_face_areas("gaussian", 3)))
show("cw integrate", lambda: repr(ux.UxDataArray(np.ones(1), dims=["n_face"], uxgrid=cw).integrate().values.tolist()))

# ===== direct helper calls
print("=" * 20, "helper direct")
x = np.array([0.5, -0.5, -0.5, 0.5, 0.0]) ; y = np.array([0.5, 0.5, -0.5, -0.5, 0.0]); z = np.array([0.7, 0.7, 0.7, 0.7, 1.0])
nrm = np.sqrt(x * x + y * y + z * z)
x, y, z = x / nrm, y / nrm, z / nrm
fn2 = np.array([[0, 1, 2, 3], [0, 1, 4, fill], [1, 2, 4, fill]], dtype=np.int64)
geom = np.array([4, 3, 3])
for rule, order in RULES + [("simpson", 2)]:
    show(
        f"direct cart {rule} {order}",
        lambda: tuple(repr(v.tolist()) + str(v.dtype) for v in get_all_face_area_from_coords(x, y, z, fn2, geom, 3, rule, order, "cartesian")),
    )
lon = np.array([0.0, 30.0, 30.0, 0.0, 15.0]); lat = np.array([0.0, 0.0, 30.0, 30.0, 60.0])
for rule, order in RULES:
    show(
        f"direct sph {rule} {order}",
        lambda: tuple(repr(v.tolist()) for v in get_all_face_area_from_coords(lon, lat, np.zeros(5), fn2[:2], np.array([4, 3]), 2, rule, order, "spherical")),
    )
show("direct defaults", lambda: tuple(repr(v.tolist()) for v in get_all_face_area_from_coords(lon, lat, np.zeros(5), fn2[:1], np.array([4]), 2)))
# fewer geometry entries than faces, empty
show("direct short geom", lambda: tuple(repr(v.tolist()) for v in get_all_face_area_from_coords(lon, lat, np.zeros(5), fn2[:2], np.array([4]), 2)))
show("direct empty", lambda: tuple(repr(v.tolist()) + str(v.dtype) for v in get_all_face_area_from_coords(lon, lat, np.zeros(5), np.zeros((0, 4), dtype=np.int64), np.zeros(0, dtype=np.int64), 2)))
show("direct float32", lambda: tuple(repr(v.tolist()) + str(v.dtype) for v in get_all_face_area_from_coords(lon.astype(np.float32), lat.astype(np.float32), np.zeros(5, dtype=np.float32), fn2[:2], np.array([4, 3]), 2, "gaussian", 4, "spherical")))
print("done")
