import sys, os

sys.path.insert(0, os.getcwd())

import copy
import hashlib
import warnings

import numpy as np
import xarray as xr

import uxarray as ux
from uxarray.constants import INT_FILL_VALUE, INT_DTYPE
from uxarray.io._ugrid import _read_ugrid, _standardize_connectivity

assert os.path.abspath(ux.__file__).startswith(os.path.abspath(os.getcwd()) + os.sep), ux.__file__

warnings.simplefilter("ignore")

MESH = os.path.join(os.getcwd(), "test", "meshfiles")


def h(arr):
    arr = np.asarray(arr)
    return hashlib.md5(np.ascontiguousarray(arr).tobytes()).hexdigest()[:12]


def attr_digest(attrs):
    out = []
    for k, v in attrs.items():
        if isinstance(v, np.ndarray):
            out.append((k, "ndarray", str(v.dtype), v.shape, v.tolist()))
        else:
            out.append((k, type(v).__name__, repr(v)[:70]))
    return out


def var_digest(da):
    vals = da.values
    small = vals.tolist() if vals.size <= 40 else h(vals)
    return "dims=%s dtype=%s shape=%s data=%s attrs=%s" % (
        da.dims, vals.dtype, vals.shape, small, attr_digest(da.attrs))


def ds_digest(ds, indent="  "):
    lines = [indent + "dims=%s coords=%s attrs=%s" % (sorted(ds.sizes.items()), sorted(ds.coords), attr_digest(ds.attrs))]
    for name in ds.variables:
        lines.append(indent + "var %s %s" % (name, var_digest(ds[name])))
    return "\n".join(lines)


def snapshot(ds):
    """Deep snapshot of everything a caller can see of a dataset."""
    snap = {"attrs": copy.deepcopy(dict(ds.attrs)), "vars": {}}
    for name in ds.variables:
        v = ds[name]
        snap["vars"][name] = (v.dims, str(v.dtype), v.values.copy(), copy.deepcopy(dict(v.attrs)))
    return snap


def same_snapshot(a, b):
    if list(a["attrs"].items()).__repr__() != list(b["attrs"].items()).__repr__():
        return False
    if list(a["vars"]) != list(b["vars"]):
        return False
    for n in a["vars"]:
        da, ta, va, aa = a["vars"][n]
        db, tb, vb, ab = b["vars"][n]
        if da != db or ta != tb or repr(aa) != repr(ab):
            return False
        if va.shape != vb.shape or va.tobytes() != vb.tobytes():
            return False
    return True


def shared(ds_a, ds_b):
    out = []
    for na in ds_a.variables:
        a = ds_a[na].values
        for nb in ds_b.variables:
            b = ds_b[nb].values
            if np.shares_memory(a, b):
                out.append((na, nb))
    return out


def ugrid_dataset(conn, conn_attrs=None, extra=None, names=None, topo_extra=None):
    """A small UGRID dataset with its own (file-like) variable and dimension names."""
    names = names or {}
    fnc = names.get("fnc", "Mesh2_face_nodes")
    lon = np.array([0.0, 10.0, 10.0, 0.0, 20.0, 20.0, 25.0, 179.0, -179.0, 185.0])
    lat = np.array([0.0, 0.0, 10.0, 10.0, 0.0, 10.0, 5.0, 40.0, 40.0, 50.0])
    topo = {
        "cf_role": "mesh_topology",
        "topology_dimension": 2,
        "node_coordinates": "Mesh2_node_x Mesh2_node_y",
        "face_node_connectivity": fnc,
    }
    topo.update(topo_extra or {})
    attrs = {"cf_role": "face_node_connectivity"}
    attrs.update(conn_attrs or {})
    ds = xr.Dataset(
        {
            "Mesh2": xr.DataArray(np.int32(0), attrs=topo),
            "Mesh2_node_x": (("nMesh2_node",), lon, {"units": "degrees_east"}),
            "Mesh2_node_y": (("nMesh2_node",), lat, {"units": "degrees_north"}),
            fnc: (("nMesh2_face", "nMaxMesh2_face_nodes"), conn, attrs),
        },
        attrs={"title": "equiv input", "history": ["a", "b"]},
    )
    for name, (dims, data, a) in (extra or {}).items():
        ds[name] = (dims, data, a)
    return ds


def cases():
    out = {}
    # mixed face sizes, one-based, custom negative fill, int32
    c = np.array([[1, 2, 3, 4, -1], [2, 5, 6, 3, -1], [5, 7, 6, -1, -1], [8, 9, 10, -1, -1]], dtype=np.int32)
    out["int32_fill-1_start1"] = ugrid_dataset(c, {"_FillValue": np.int32(-1), "start_index": np.int32(1)})
    # same, start index not given: detected from the smallest index
    out["int32_fill-1_nostart"] = ugrid_dataset(c.copy(), {"_FillValue": np.int32(-1)})
    # positive fill value 999, zero-based, int64
    c2 = np.array([[0, 1, 2, 3, 999], [1, 4, 5, 2, 999], [4, 6, 5, 999, 999]], dtype=np.int64)
    out["int64_fill999_start0"] = ugrid_dataset(c2, {"_FillValue": 999, "start_index": 0})
    # NaN padded float connectivity without _FillValue attribute, one-based
    c3 = np.array([[1.0, 2.0, 3.0, 4.0], [2.0, 5.0, 3.0, np.nan]])
    out["float_nan_start1"] = ugrid_dataset(c3, {"start_index": 1})
    out["float_nan_nostart"] = ugrid_dataset(c3.copy())
    # float with _FillValue NaN attribute
    out["float_nanattr"] = ugrid_dataset(c3.copy(), {"_FillValue": np.nan, "start_index": 1})
    # already standard: INT_DTYPE with INT_FILL_VALUE, zero-based
    c4 = np.array([[0, 1, 2, 3], [1, 4, 2, INT_FILL_VALUE]], dtype=INT_DTYPE)
    out["standard"] = ugrid_dataset(c4, {"_FillValue": INT_FILL_VALUE, "start_index": 0})
    out["standard_start1_attr_only"] = ugrid_dataset(
        np.array([[1, 2, 3, 4], [2, 5, 3, INT_FILL_VALUE]], dtype=INT_DTYPE), {"_FillValue": INT_FILL_VALUE}
    )
    # no fill values at all, no attributes, uniform quads, int64 one-based
    c5 = np.array([[1, 2, 3, 4], [2, 5, 6, 3]], dtype=np.int64)
    out["nofill_noattrs"] = ugrid_dataset(c5)
    # unsigned small dtype
    out["uint8_nofill_start1"] = ugrid_dataset(c5.astype(np.uint8), {"start_index": 1})
    # additional connectivity variables, one found through cf_role only, one completely padded
    enc = np.array([[1, 2], [2, 3], [3, 4], [4, 1], [2, 5], [5, 6], [6, 3]], dtype=np.int32)
    ffc = np.full((2, 4), -1, dtype=np.int32)
    out["extra_conn"] = ugrid_dataset(
        c5.astype(np.int32),
        {"start_index": 1},
        extra={
            "Mesh2_edge_nodes": (("nMesh2_edge", "Two"), enc, {"cf_role": "edge_node_connectivity", "start_index": 1}),
            "Mesh2_face_links": (("nMesh2_face", "nMaxMesh2_face_nodes"), ffc,
                                 {"cf_role": "face_face_connectivity", "_FillValue": np.int32(-1)}),
        },
        topo_extra={"edge_node_connectivity": "Mesh2_edge_nodes"},
    )
    # variables already carry the UGRID names (rename maps names onto themselves)
    out["ugrid_names"] = ugrid_dataset(c.copy(), {"_FillValue": np.int32(-1), "start_index": 1},
                                       names={"fnc": "face_node_connectivity"})
    return out


def run_case(label, ds_in):
    print("=" * 10, label)
    before = snapshot(ds_in)

    # 1. reader
    try:
        out_ds, dim_dict = _read_ugrid(ds_in)
    except Exception as e:
        print("  _read_ugrid EXC", type(e).__name__, e.args)
        out_ds = None
    if out_ds is not None:
        print("  _read_ugrid dims_dict:", sorted(dim_dict.items()))
        print(ds_digest(out_ds, "    "))
        print("  input unchanged by reader:", same_snapshot(before, snapshot(ds_in)))
        print("  reader output shares memory with input:", shared(out_ds, ds_in))
        print("  attrs dicts shared:", [n for n in out_ds.variables for m in ds_in.variables
                                        if out_ds[n].attrs is ds_in[m].attrs], out_ds.attrs is ds_in.attrs)

    # 2. whole constructor
    try:
        g = ux.Grid.from_dataset(ds_in)
    except Exception as e:
        print("  from_dataset EXC", type(e).__name__, e.args)
        g = None
    if g is not None:
        print("  grid spec:", g.source_grid_spec, sorted(g._source_dims_dict.items()))
        print(ds_digest(g._ds, "    "))
        print("  input unchanged by constructor:", same_snapshot(before, snapshot(ds_in)))
        print("  grid shares memory with input:", shared(g._ds, ds_in))
        # lazy derivations and mutators on the grid leave the input alone
        _ = g.edge_node_connectivity, g.n_nodes_per_face, g.face_lon
        g.normalize_cartesian_coordinates()
        g.face_node_connectivity.values[...] = 0
        g.node_lon.values[...] = -1.0
        print("  input unchanged by later grid edits:", same_snapshot(before, snapshot(ds_in)))
        # editing the input afterwards leaves a fresh grid alone
        g2 = ux.Grid.from_dataset(ds_in)
        s2 = snapshot(g2._ds)
        for name in ds_in.variables:
            v = ds_in[name].values
            if v.ndim:
                v[...] = 3
            ds_in[name].attrs["edited"] = True
        print("  grid unchanged by later input edits:", same_snapshot(s2, snapshot(g2._ds)))


def direct_calls():
    """_standardize_connectivity called directly on a dataset (it edits that dataset in place)."""
    print("=" * 10, "direct _standardize_connectivity")
    specs = [
        ("int16 fill -1 start 1", np.array([[1, 2, 3], [2, 3, -1]], dtype=np.int16), {"_FillValue": np.int16(-1), "start_index": 1}),
        ("int64 all fill", np.full((2, 3), -5, dtype=np.int64), {"_FillValue": -5}),
        ("standard all fill", np.full((2, 3), INT_FILL_VALUE, dtype=INT_DTYPE), {"_FillValue": INT_FILL_VALUE}),
        ("float nan only", np.full((1, 3), np.nan), {}),
        ("float fill attr -1.0", np.array([[2.0, 3.0, 4.0], [3.0, 4.0, -1.0]]), {"_FillValue": -1.0}),
        ("array-valued attrs", np.array([[1, 2, 3], [2, 3, 0]], dtype=np.int32), {"_FillValue": np.array([0], dtype=np.int32), "start_index": np.array([1])}),
        ("empty", np.zeros((0, 3), dtype=np.int32), {}),
        ("extra attrs order", np.array([[5, 6, 7]], dtype=np.int64), {"start_index": 5, "long_name": "x", "_FillValue": -1, "zz": 1}),
        ("negative start", np.array([[-2, -1, 0]], dtype=np.int64), {}),
        ("strings", np.array([["a", "b"]]), {}),
    ]
    for label, arr, attrs in specs:
        orig = arr.copy()
        ds = xr.Dataset({"face_node_connectivity": (("n_face", "n_max_face_nodes"), arr, dict(attrs)),
                         "other": (("n_face",), np.arange(arr.shape[0]))})
        var_before = ds._variables["face_node_connectivity"]
        try:
            ret = _standardize_connectivity(ds, "face_node_connectivity")
        except Exception as e:
            print("  %s -> EXC %s %r" % (label, type(e).__name__, e.args))
            print("     caller array untouched:", orig.tobytes() == arr.tobytes(), " ds var:", var_digest(ds["face_node_connectivity"]))
            continue
        print("  %s -> returns same ds: %s; same Variable object: %s" % (
            label, ret is ds, ds._variables["face_node_connectivity"] is var_before))
        print("     ", var_digest(ds["face_node_connectivity"]))
        print("     caller array untouched:", orig.tobytes() == arr.tobytes(),
              " shares:", np.shares_memory(arr, ds["face_node_connectivity"].values),
              " other var:", ds["other"].values.tolist())


def files():
    for rel in [("ugrid", "quad-hexagon", "grid.nc"), ("ugrid", "geoflow-small", "grid.nc"),
                ("ugrid", "outCSne30", "outCSne30.ug"), ("ugrid", "fesom", "fesom.mesh.diag.nc"),
                ("ugrid", "ov_RLL10deg_CSne4", "ov_RLL10deg_CSne4.ug")]:
        path = os.path.join(MESH, *rel)
        print("=" * 10, "/".join(rel))
        ds_in = xr.open_dataset(path)
        ds_in.load()
        before = snapshot(ds_in)
        g = ux.Grid.from_dataset(ds_in)
        for name in g._ds.variables:
            v = g._ds[name]
            print("   var %s dims=%s dtype=%s hash=%s attrs=%s" % (name, v.dims, v.dtype, h(v.values), attr_digest(v.attrs)))
        print("  input unchanged:", same_snapshot(before, snapshot(ds_in)))
        print("  shares:", shared(g._ds, ds_in))
        g_open = ux.open_grid(path)
        print("  open_grid equal hashes:", [(n, h(g_open._ds[n].values)) for n in g_open._ds.variables if "connectivity" in n])


if __name__ == "__main__":
    for label, ds in cases().items():
        run_case(label, ds)
    direct_calls()
    files()
