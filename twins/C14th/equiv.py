import sys, os

sys.path.insert(0, os.getcwd())

import hashlib
import warnings

import numpy as np

import uxarray

assert os.path.abspath(uxarray.__file__).startswith(os.path.abspath(os.getcwd()) + os.sep), uxarray.__file__

from uxarray.grid.coordinates import _xyz_to_lonlat_rad_scalar
from uxarray.grid.arcs import point_within_gca, extreme_gca_latitude
from uxarray.grid.intersections import gca_gca_intersection


def ll(lon_deg, lat_deg):
    lon, lat = np.deg2rad(lon_deg), np.deg2rad(lat_deg)
    return np.array([np.cos(lon) * np.cos(lat), np.sin(lon) * np.cos(lat), np.sin(lat)])


def first_line(e):
    return (str(e).splitlines() or [""])[0]


def describe(v):
    a = np.asarray(v)
    return "%s/%s/%s/%s" % (type(v).__name__, a.dtype, a.shape, a.tobytes().hex())


def call(f, *a, **k):
    with warnings.catch_warnings(record=True) as rec:
        warnings.simplefilter("always")
        try:
            out = f(*a, **k)
            if isinstance(out, tuple):
                res = "tuple(" + ", ".join(describe(v) for v in out) + ")"
            else:
                res = describe(out) + " " + repr(out)
        except Exception as e:  # noqa
            res = "EXC %s: %s" % (type(e).__name__, first_line(e))
    ws = [(w.category.__name__, ([l for l in str(w.message).splitlines() if l.strip()] or [""])[0]) for w in rec]
    return res + (" W=%r" % ws if rec else "")


# ---------------------------------------------------------------- 1. the scalar conversion itself
print("== _xyz_to_lonlat_rad_scalar")
eps = 1e-8
scalar_inputs = [
    (0.3, 0.4, 0.5),
    (1.0, 0.0, 0.0),
    (-1.0, 0.0, 0.0),
    (-1.0, -0.0, 0.0),
    (-1.0, 1e-17, 0.0),
    (-1.0, -1e-17, 0.0),
    (0.0, 1.0, 0.0),
    (0.0, -1.0, 0.0),
    (0.0, 0.0, 1.0),
    (0.0, 0.0, -1.0),
    (0.0, 0.0, 0.0),
    (1e-5, 0.0, 1.0 - 0.5 * eps),
    (1e-4, 1e-4, 1.0 - 1.0 * eps),
    (1e-4, -1e-4, 1.0 - 2.0 * eps),
    (1e-4, -1e-4, -(1.0 - 0.5 * eps)),
    (1e-4, -1e-4, -(1.0 - 2.0 * eps)),
    (0.0, 0.0, 1.0 + 1e-9),
    (0.0, 0.0, -1.0 - 1e-9),
    (0.1, 0.2, 1.5),
    (0.1, 0.2, -1.5),
    (3.0, -4.0, 12.0),
    (np.nan, 0.0, 0.0),
    (0.0, 0.0, np.nan),
    (np.inf, 0.0, 0.0),
    (1, 0, 0),
    (0, 0, 1),
    (0, 0, -1),
    (2, 3, 6),
    (0, 0, 0),
    (np.float32(0.1), np.float32(0.2), np.float32(0.3)),
    (np.float32(0.0), np.float32(0.0), np.float32(1.0)),
    (True, False, False),
    (0.5, 1, 0),
    (np.float64(0.6), np.float64(0.0), np.float64(0.8)),
    (np.array(0.6), np.array(0.0), np.array(0.8)),
    (np.array([0.6, 0.0]), np.array([0.0, 0.6]), np.array([0.8, 0.8])),
]
for xyz in scalar_inputs:
    print(repr(xyz), "default :", call(_xyz_to_lonlat_rad_scalar, *xyz))
    print(repr(xyz), "norm=T  :", call(_xyz_to_lonlat_rad_scalar, *xyz, normalize=True))
    print(repr(xyz), "norm=F  :", call(_xyz_to_lonlat_rad_scalar, *xyz, normalize=False))
    print(repr(xyz), "posit. F:", call(_xyz_to_lonlat_rad_scalar, xyz[0], xyz[1], xyz[2], False))

rng = np.random.default_rng(7)
h = hashlib.sha1()
for i in range(3000):
    v = rng.normal(size=3)
    if i % 3 == 0:
        v = v / np.linalg.norm(v)
    if i % 7 == 0:
        v = np.array([1e-5 * v[0], 1e-5 * v[1], np.sign(v[2]) * 1.0])
    for n in (True, False):
        h.update(call(_xyz_to_lonlat_rad_scalar, float(v[0]), float(v[1]), float(v[2]), normalize=n).encode())
print("random scalar digest", h.hexdigest())

# ---------------------------------------------------------------- 2. point_within_gca wrapper
print("== point_within_gca")
arcs = {
    "equator": (ll(-20, 0), ll(30, 0)),
    "meridian": (ll(40, -10), ll(40, 50)),
    "generic": (ll(10, 10), ll(60, 40)),
    "antimeridian": (ll(170, 10), ll(-170, -10)),
    "antimeridian_eq": (ll(170, 0), ll(-160, 0)),
    "across_north_pole": (ll(0, 80), ll(180, 70)),
    "across_south_pole": (ll(20, -80), ll(200, -75)),
    "north_pole_end": (ll(0, 90), ll(30, 40)),
    "south_pole_end": (ll(30, -40), ll(0, -90)),
    "prime_meridian_cross": (ll(-5, 20), ll(5, -20)),
    "half_circle": (ll(0, 0), ll(180, 0)),
    "nearly_half": (ll(0, 1), ll(179, 0)),
    "zero_length": (ll(10, 10), ll(10, 10)),
}


def slerp(a, b, t):
    w = np.arccos(np.clip(np.dot(a, b), -1, 1))
    if w == 0:
        return a.copy()
    return (np.sin((1 - t) * w) * a + np.sin(t * w) * b) / np.sin(w)


for name, (a, b) in arcs.items():
    pts = {"end0": a, "end1": b, "north": np.array([0.0, 0.0, 1.0]), "south": np.array([0.0, 0.0, -1.0]), "off": ll(77, 33)}
    for t in (-0.3, 0.0, 0.25, 0.5, 0.999999, 1.0, 1.2):
        pts["t=%g" % t] = slerp(a, b, t)
    pts["anti_mid"] = -slerp(a, b, 0.5)
    for pname, p in pts.items():
        for directed in (False, True):
            r1 = call(point_within_gca, p, np.array([a, b]), is_directed=directed)
            r2 = call(point_within_gca, p, np.array([b, a]), is_directed=directed)
            r3 = call(point_within_gca, list(map(float, p)), [list(map(float, a)), list(map(float, b))], directed)
            r4 = call(point_within_gca, p, [a, b]) if not directed else ""
            print(name, pname, "directed" if directed else "undirected", "|", r1, "|", r2, "|", r3, "|", r4)

# inputs must not be modified by the wrapper
a, b, p = ll(0, 90), ll(30, 40), ll(0, 90)
g = np.array([a, b])
g0, p0 = g.copy(), p.copy()
call(point_within_gca, p, g)
print("inputs untouched:", np.array_equal(g, g0), np.array_equal(p, p0))

# odd inputs
print("int arc:", call(point_within_gca, [1, 0, 0], [[1, 0, 0], [0, 1, 0]]))
print("int arc ndarray:", call(point_within_gca, np.array([1, 0, 0]), np.array([[1, 0, 0], [0, 1, 0]])))
print("float32:", call(point_within_gca, ll(5, 0).astype(np.float32), np.array([ll(0, 0), ll(10, 0)], dtype=np.float32)))
print("short pt:", call(point_within_gca, [1.0, 0.0], np.array([ll(0, 0), ll(10, 0)])))
print("short arc:", call(point_within_gca, ll(5, 0), np.array([ll(0, 0)])))
print("short pt and arc:", call(point_within_gca, [1.0], [[1.0, 0.0]]))
print("2-col arc:", call(point_within_gca, ll(5, 0), np.zeros((2, 2))))
print("pt None:", call(point_within_gca, None, np.array([ll(0, 0), ll(10, 0)])))
print("arc None:", call(point_within_gca, ll(5, 0), None))
print("tuple inputs:", call(point_within_gca, tuple(ll(5, 0)), (tuple(ll(0, 0)), tuple(ll(10, 0)))))
print("4-vector pt:", call(point_within_gca, [1.0, 0.0, 0.0, 9.0], np.array([ll(0, 0), ll(10, 0)])))

h = hashlib.sha1()
cnt = {}
for i in range(1500):
    a = rng.normal(size=3)
    a /= np.linalg.norm(a)
    b = rng.normal(size=3)
    b /= np.linalg.norm(b)
    t = rng.uniform(-0.5, 1.5)
    p = slerp(a, b, t)
    if i % 5 == 0:
        p = p + 1e-3 * rng.normal(size=3)
        p /= np.linalg.norm(p)
    for d in (False, True):
        r = call(point_within_gca, p, np.array([a, b]), is_directed=d)
        h.update(r.encode())
        key = r.split(" ")[-1][:40] if not r.startswith("EXC") else r[:60]
        cnt[key] = cnt.get(key, 0) + 1
print("random pwg", sorted(cnt.items()), h.hexdigest())

# ---------------------------------------------------------------- 3. callers: extreme latitude and intersections
print("== extreme_gca_latitude")
for name, (a, b) in arcs.items():
    for kind in ("max", "min", "MAX", "mean"):
        print(name, kind, call(extreme_gca_latitude, np.array([a, b]), kind), "|", call(extreme_gca_latitude, np.array([b, a]), kind))
print("unnormalised", call(extreme_gca_latitude, np.array([2.0 * ll(10, 10), 3.0 * ll(60, 40)]), "max"))
print("int", call(extreme_gca_latitude, np.array([[1, 0, 0], [0, 1, 1]]), "max"))
h = hashlib.sha1()
for i in range(800):
    a = rng.normal(size=3)
    a /= np.linalg.norm(a)
    b = rng.normal(size=3)
    b /= np.linalg.norm(b)
    for kind in ("max", "min"):
        h.update(call(extreme_gca_latitude, np.array([a, b]), kind).encode())
print("random extreme digest", h.hexdigest())

print("== gca_gca_intersection")
h = hashlib.sha1()
cnt = {}
for i in range(300):
    c = rng.normal(size=3)
    c /= np.linalg.norm(c)
    pts = []
    for _ in range(4):
        q = c + 0.4 * rng.normal(size=3)
        pts.append(q / np.linalg.norm(q))
    r = call(gca_gca_intersection, np.array(pts[:2]), np.array(pts[2:]))
    h.update(r.encode())
    k = r.split("/")[2] if not r.startswith("EXC") else r[:60]
    cnt[k] = cnt.get(k, 0) + 1
print("random intersections", sorted(cnt.items()), h.hexdigest())
for name, (a, b) in arcs.items():
    print(name, "x generic:", call(gca_gca_intersection, np.array([a, b]), np.array([ll(20, 45), ll(50, 5)])))
    print(name, "x meridian180:", call(gca_gca_intersection, np.array([a, b]), np.array([ll(180, -30), ll(180, 30)])))
