import sys, os; sys.path.insert(0, os.getcwd())
import hashlib
import warnings
import numpy as np
import xarray as xr
import dask.array as da
import uxarray
import uxarray as ux
assert os.path.abspath(uxarray.__file__).startswith(os.path.abspath(os.getcwd()) + os.sep), uxarray.__file__
from uxarray.constants import INT_FILL_VALUE, INT_DTYPE
from uxarray.core import aggregation as agg_mod
from uxarray.core.aggregation import _uxda_grid_aggregate

warnings.simplefilter("ignore")
AGGS = ["mean", "min", "max", "median", "std", "var", "sum", "prod", "all", "any"]


def digest(a):
    a = np.ascontiguousarray(a)
    return f"{a.dtype}{a.shape}:{hashlib.sha256(a.tobytes()).hexdigest()[:16]}"


def make_grid(rng, n_node, sizes):
    """grid with the given face sizes, in the given order; padding is the fill value."""
    width = max(sizes)
    conn = np.full((len(sizes), width), INT_FILL_VALUE, dtype=INT_DTYPE)
    for i, s in enumerate(sizes):
        conn[i, :s] = rng.choice(n_node, size=s, replace=False)
    lon = rng.uniform(-180, 180, n_node)
    lat = rng.uniform(-89, 89, n_node)
    return ux.Grid.from_topology(lon, lat, conn, fill_value=INT_FILL_VALUE)


def sane_grid():
    # two quads, one triangle, one pentagon sharing nodes
    lon = np.array([0.0, 10, 20, 0, 10, 20, 30, 30, 25])
    lat = np.array([0.0, 0, 0, 10, 10, 10, 0, 10, 15])
    F = INT_FILL_VALUE
    conn = np.array(
        [[0, 1, 4, 3, F], [2, 6, 7, 8, 5], [1, 2, 5, 4, F], [3, 4, 5, F, F]],
        dtype=INT_DTYPE,
    )
    return ux.Grid.from_topology(lon, lat, conn, fill_value=F)


def datasets(rng, n_node):
    base = rng.normal(size=(2, 3, n_node))
    yield "f64-1d", base[0, 0], ("n_node",)
    yield "f64-2d", base[0], ("t", "n_node")
    yield "f64-3d", base, ("t", "lev", "n_node")
    yield "f32-2d", base[1].astype(np.float32), ("t", "n_node")
    yield "i64-2d", rng.integers(-5, 6, size=(3, n_node)), ("t", "n_node")
    yield "i32-1d", rng.integers(0, 3, size=n_node).astype(np.int32), ("n_node",)
    yield "bool-2d", rng.integers(0, 2, size=(2, n_node)).astype(bool), ("t", "n_node")
    nan = base[0].copy()
    nan[:, ::3] = np.nan
    yield "nan-2d", nan, ("t", "n_node")
    yield "empty-lead", np.empty((0, n_node)), ("t", "n_node")


def describe(res):
    return (
        f"{type(res).__name__} name={res.name!r} dims={res.dims} "
        f"samegrid={res.uxgrid is describe.grid} {digest(res.values)}"
    )


def attempt(label, fn):
    try:
        out = fn()
        print(label, "->", describe(out))
    except Exception as e:  # noqa
        print(label, "-> RAISED", type(e).__name__, str(e))


def run_grid(gname, grid, rng):
    describe.grid = grid
    print("==", gname, "n_face", grid.n_face, "n_edge", grid.n_edge, "n_node", grid.n_node,
          "sizes", grid.n_nodes_per_face.values.tolist())
    for dname, arr, dims in datasets(rng, grid.n_node):
        uxda = ux.UxDataArray(arr, dims=dims, name="v_" + dname, uxgrid=grid)
        for a in AGGS:
            for dest in ("face", "edge"):
                attempt(f"{gname}/{dname}/{a}/{dest}",
                        lambda: getattr(uxda, "topological_" + a)(destination=dest))
    # keyword arguments are forwarded
    uxda = ux.UxDataArray(rng.normal(size=(2, grid.n_node)), dims=("t", "n_node"), name="kw", uxgrid=grid)
    for dest in ("face", "edge"):
        attempt(f"{gname}/std-ddof1/{dest}", lambda: uxda.topological_std(destination=dest, ddof=1))
        attempt(f"{gname}/sum-dtype/{dest}", lambda: uxda.topological_sum(destination=dest, dtype=np.float32))
        attempt(f"{gname}/mean-badkw/{dest}", lambda: uxda.topological_mean(destination=dest, nonsense=1))
    # dask-backed data
    dk = ux.UxDataArray(da.from_array(rng.normal(size=(2, grid.n_node)), chunks=(1, -1)),
                        dims=("t", "n_node"), name="dk", uxgrid=grid)
    for a in ("mean", "max", "any"):
        for dest in ("face", "edge"):
            attempt(f"{gname}/dask/{a}/{dest}", lambda: getattr(dk, "topological_" + a)(destination=dest))
    # error paths
    for dest in (None, "node", "faces", "FACE", "", 3, ["face"], ("edge",), np.str_("face"), np.str_("edge")):
        attempt(f"{gname}/dest={dest!r}", lambda: uxda.topological_mean(destination=dest))
    attempt(f"{gname}/nodest", lambda: uxda.topological_min())
    face_da = ux.UxDataArray(rng.normal(size=grid.n_face), dims=("n_face",), name="fc", uxgrid=grid)
    edge_da = ux.UxDataArray(rng.normal(size=grid.n_edge), dims=("n_edge",), name="ec", uxgrid=grid)
    other_da = ux.UxDataArray(rng.normal(size=4), dims=("x",), name="oc", uxgrid=grid)
    both_da = ux.UxDataArray(rng.normal(size=(grid.n_edge, grid.n_face)), dims=("n_edge", "n_face"), name="bc", uxgrid=grid)
    nf_da = ux.UxDataArray(rng.normal(size=(grid.n_face, grid.n_node)), dims=("n_face", "n_node"), name="nf", uxgrid=grid)
    lead_da = ux.UxDataArray(rng.normal(size=(grid.n_node, 2)), dims=("n_node", "t"), name="lead", uxgrid=grid)
    for nm, d in (("face-centred", face_da), ("edge-centred", edge_da), ("unmapped", other_da),
                  ("edge+face", both_da), ("face+node", nf_da), ("node-leading", lead_da)):
        for dest in ("face", "edge", "node", None, "bogus"):
            attempt(f"{gname}/{nm}/dest={dest!r}", lambda: d.topological_max(destination=dest))
    # unknown aggregation name and direct calls to the dispatcher
    for dest in ("face", "edge", "bogus", None):
        attempt(f"{gname}/unknown-agg/{dest!r}", lambda: _uxda_grid_aggregate(uxda, dest, "mode"))
        attempt(f"{gname}/direct-median/{dest!r}", lambda: _uxda_grid_aggregate(uxda, dest, "median"))
    attempt(f"{gname}/unknown-agg/face-centred", lambda: _uxda_grid_aggregate(face_da, "face", "mode"))


def main():
    rng = np.random.default_rng(1717)
    run_grid("sane", sane_grid(), rng)
    run_grid("mixed-shuffled", make_grid(rng, 40, [5, 3, 6, 4, 3, 6, 4, 4, 5, 3, 8, 3]), rng)
    run_grid("uniform-tri", make_grid(rng, 12, [3] * 7), rng)
    run_grid("one-big-rest-small", make_grid(rng, 30, [3, 3, 3, 9, 3, 3]), rng)
    run_grid("descending", make_grid(rng, 25, [7, 6, 5, 4, 3]), rng)
    run_grid("single-face", make_grid(rng, 6, [5]), rng)
    print("module names:", sorted(n for n in dir(agg_mod) if n.startswith("_apply") or n.startswith("_node_to") or n == "_uxda_grid_aggregate" or n == "NUMPY_AGGREGATIONS"))


main()
