import sys, os; sys.path.insert(0, os.getcwd())
import hashlib
import warnings

warnings.filterwarnings("ignore")

import numpy as np
import cartopy.crs as ccrs
import uxarray as ux

assert os.path.abspath(ux.__file__).startswith(os.path.abspath(os.getcwd()) + os.sep), ux.__file__

from uxarray.grid import geometry as G


def h(a):
    a = np.asarray(a)
    return "%s %s %s" % (a.dtype, a.shape, hashlib.sha1(np.ascontiguousarray(a).tobytes()).hexdigest()[:16])


def show(tag, val):
    print(tag, "::", val)


def digest_geoms(geoms):
    """order-sensitive digest of a sequence of shapely geometries"""
    m = hashlib.sha1()
    kinds = []
    for g in geoms:
        m.update(g.wkb)
        kinds.append(g.geom_type[0])
    return "n=%d kinds=%s sha=%s" % (len(kinds), "".join(kinds) if len(kinds) < 60 else hashlib.sha1("".join(kinds).encode()).hexdigest()[:10], m.hexdigest()[:16])


def digest_gdf(gdf):
    geom = gdf["geometry"]
    idx = list(gdf.index)
    cols = list(gdf.columns)
    if type(gdf).__module__.startswith("geopandas"):
        body = digest_geoms(list(geom))
    else:
        arr = geom.values
        try:
            bufs = arr.buffer_values
            body = "sp %s flat=%s len=%d" % (type(arr).__name__, h(bufs), len(arr))
            offs = getattr(arr, "buffer_offsets", None)
            if offs is not None:
                body += " offs=" + ";".join(h(o) for o in offs)
        except Exception as e:  # pragma: no cover
            body = "sp-repr " + hashlib.sha1(repr(list(arr)).encode()).hexdigest()[:16]
    extra = ""
    for c in cols:
        if c != "geometry":
            extra += " %s=%s" % (c, h(np.asarray(gdf[c])))
    return "%s cols=%s idx=%s %s%s" % (type(gdf).__module__.split(".")[0], cols, h(np.asarray(idx)), body, extra)


def digest_collection(pc):
    paths = pc.get_paths()
    m = hashlib.sha1()
    for p in paths:
        v = np.ascontiguousarray(p.vertices)
        m.update(str(v.dtype).encode() + str(v.shape).encode() + v.tobytes())
    arr = pc.get_array()
    return "%s n=%d sha=%s array=%s" % (type(pc).__name__, len(paths), m.hexdigest()[:16], None if arr is None else h(arr))


def digest_lines(lc):
    segs = lc.get_segments()
    m = hashlib.sha1()
    for s in segs:
        v = np.ascontiguousarray(s)
        m.update(str(v.dtype).encode() + str(v.shape).encode() + v.tobytes())
    return "LineCollection n=%d sha=%s" % (len(segs), m.hexdigest()[:16])


def attempt(tag, fn):
    try:
        show(tag, fn())
    except Exception as e:
        show(tag, "EXC %s: %s" % (type(e).__name__, str(e)[:120]))


# ---------------------------------------------------------------- grids
def custom_grid(fill=-1):
    lon = np.array([170, -170, -170, 170, 150, 150, 160, -150, -150, 180,
                    -10, 10, 15, 0, -15,
                    0, 60, 120, 180, -120, -60,
                    179.5, -179.5, 179.0], dtype=float)
    lat = np.array([0, 0, 10, 10, 0, 10, 20, 0, 10, 20,
                    35, 35, 45, 52, 45,
                    80, 80, 80, 80, 80, 80,
                    -30, -30, -20], dtype=float)
    F = fill
    conn = np.array([
        [0, 1, 2, 3, F, F],        # quad across the antimeridian
        [4, 0, 3, 5, F, F],        # ordinary quad
        [5, 3, 6, F, F, F],        # ordinary triangle
        [1, 7, 8, 2, F, F],        # ordinary quad (west side)
        [3, 2, 9, F, F, F],        # triangle across the antimeridian, one node on lon=180
        [10, 11, 12, 13, 14, F],   # pentagon
        [15, 16, 17, 18, 19, 20],  # hexagon around the north pole
        [21, 22, 23, F, F, F],     # thin triangle across the antimeridian
    ])
    return ux.Grid.from_topology(lon, lat, conn, fill_value=F)


def no_am_grid():
    lon = np.array([0, 10, 10, 0, 20, 20, 5], dtype=float)
    lat = np.array([0, 0, 10, 10, 0, 10, 18], dtype=float)
    conn = np.array([[0, 1, 2, 3], [1, 4, 5, 2], [3, 2, 6, -1]])
    return ux.Grid.from_topology(lon, lat, conn, fill_value=-1)


def single_am_grid():
    # exactly one antimeridian face: the size-1 index array path
    lon = np.array([170, -170, -170, 170, 150, 150], dtype=float)
    lat = np.array([0, 0, 10, 10, 0, 10], dtype=float)
    conn = np.array([[0, 1, 2, 3], [4, 0, 3, 5]])
    return ux.Grid.from_topology(lon, lat, conn, fill_value=-1)


GRIDS = [
    ("custom", custom_grid),
    ("no_am", no_am_grid),
    ("single_am", single_am_grid),
    ("quadhex", lambda: ux.open_grid("test/meshfiles/ugrid/quad-hexagon/grid.nc")),
    ("geoflow", lambda: ux.open_grid("test/meshfiles/ugrid/geoflow-small/grid.nc")),
    ("mpas", lambda: ux.open_grid("test/meshfiles/mpas/QU/mesh.QU.1920km.151026.nc")),
    ("csne30", lambda: ux.open_grid("test/meshfiles/ugrid/outCSne30/outCSne30.ug")),
]

PROJS = [
    ("None", lambda: None),
    ("PC90", lambda: ccrs.PlateCarree(central_longitude=90)),  # has no lon_0: KeyError on both trees
    ("Merc0", lambda: ccrs.Mercator(central_longitude=0.0)),  # lon_0 == 0: no shift
    ("Rob-45", lambda: ccrs.Robinson(central_longitude=-45)),
    ("Ortho", lambda: ccrs.Orthographic(central_longitude=30, central_latitude=20)),
]


# ---------------------------------------------------------------- low level helpers
print("== low level")
for gname, mk in GRIDS:
    g = mk()
    nl, nt = g.node_lon.values, g.node_lat.values
    for pname, mkp in PROJS:
        p = mkp()

        def ccl():
            a, b, c = G._correct_central_longitude(nl, nt, p)
            return "lon=%s (same obj %s) lat=%s (same obj %s) cl=%r %s" % (h(a), a is nl, h(b), b is nt, c, type(c).__name__)

        attempt("ccl %s %s" % (gname, pname), ccl)

    shells = G._build_polygon_shells(nl, nt, g.face_node_connectivity.values, g.n_face, g.n_max_face_nodes, g.n_nodes_per_face.values)
    ami = G._build_antimeridian_face_indices(shells[:, :, 0])
    show("shells %s" % gname, h(shells) + " ami=" + h(ami) + (" " + repr(ami.tolist()) if ami.size < 20 else ""))

    def cps():
        cs, idx = G._build_corrected_polygon_shells(shells)
        m = hashlib.sha1()
        for s in cs:
            assert type(s) is np.ndarray
            m.update(str(s.dtype).encode() + str(s.shape).encode() + np.ascontiguousarray(s).tobytes())
        flags = set((s.flags.c_contiguous, s.flags.f_contiguous) for s in cs)
        return "n=%d sha=%s idx=%s idxtypes=%s type=%s/%s flags=%s" % (
            len(cs), m.hexdigest()[:16], hashlib.sha1(repr(idx).encode()).hexdigest()[:12] if len(idx) > 30 else idx,
            sorted(set(type(i).__name__ for i in idx)), type(cs).__name__, type(idx).__name__, sorted(flags))

    attempt("corrected_polygon_shells %s" % gname, cps)

    def csp():
        pol = G._build_corrected_shapely_polygons(shells, None, ami)
        return "%s %s %s" % (type(pol).__name__, getattr(pol, "dtype", None), digest_geoms(pol))

    attempt("corrected_shapely %s" % gname, csp)

    for eng in ("geopandas", "spatialpandas"):
        attempt("gdf_without %s %s" % (gname, eng),
                lambda: digest_gdf(G._build_geodataframe_without_antimeridian(shells, None, ami, eng)))
        # a "projected" stand-in (scaled shells) must be the one that is used
        attempt("gdf_without/proj %s %s" % (gname, eng),
                lambda: digest_gdf(G._build_geodataframe_without_antimeridian(shells, shells * np.float32(0.5), ami, eng)))
        attempt("gdf_with %s %s" % (gname, eng),
                lambda: digest_gdf(G._build_geodataframe_with_antimeridian(shells, None, ami, eng)))

# empty index / empty shells corner cases
g = no_am_grid()
shells = G._build_polygon_shells(g.node_lon.values, g.node_lat.values, g.face_node_connectivity.values, g.n_face, g.n_max_face_nodes, g.n_nodes_per_face.values)
empty = np.array([], dtype=np.int64)
attempt("empty-idx shapely", lambda: digest_geoms(G._build_corrected_shapely_polygons(shells, None, empty)))
attempt("empty-idx gdf", lambda: digest_gdf(G._build_geodataframe_without_antimeridian(shells, None, empty, "geopandas")))
attempt("all-idx gdf", lambda: digest_gdf(G._build_geodataframe_without_antimeridian(shells, None, np.arange(3), "geopandas")))
attempt("zero-shells corrected", lambda: repr(G._build_corrected_polygon_shells(shells[:0])))
attempt("ccl falsy projection", lambda: repr(G._correct_central_longitude(1, 2, 0)))
attempt("ccl no lon_0", lambda: repr(G._correct_central_longitude(np.zeros(2), np.zeros(2), ccrs.Geostationary()) [2]))

# ---------------------------------------------------------------- public API, with call histories
print("== public API")
for gname, mk in GRIDS:
    for pe in ("exclude", "split", "ignore"):
        for pname, mkp in PROJS:
            p = mkp()
            g = mk()
            for eng in ("geopandas", "spatialpandas"):
                def run():
                    out = g.to_geodataframe(periodic_elements=pe, projection=p, engine=eng, return_non_nan_polygon_indices=True)
                    gdf, nn = out
                    return digest_gdf(gdf) + " nn=" + (repr(nn) if nn is None else h(nn)) + " cachedAMI=" + h(g._gdf_cached_parameters["antimeridian_face_indices"])
                attempt("gdf %s %s %s %s" % (gname, pe, pname, eng), run)

            def runpc():
                pc, idx = g.to_polycollection(periodic_elements=pe, projection=p, return_indices=True)
                idxd = h(np.asarray(idx)) if len(idx) else repr(idx)
                return digest_collection(pc) + " idx=" + idxd + " " + type(idx).__name__ + " transform=" + type(pc._transform).__name__ + repr(getattr(pc._transform, "proj4_params", None))
            attempt("pc %s %s %s" % (gname, pe, pname), runpc)
            attempt("lc %s %s %s" % (gname, pe, pname),
                    lambda: digest_lines(g.to_linecollection(periodic_elements=pe, projection=p)))

# data stays with its face; earlier conversions do not matter
print("== data")
for gname, mk in GRIDS[:3] + GRIDS[5:6]:
    g = mk()
    data = np.arange(g.n_face, dtype=float) * 1.5 + 7
    uxda = ux.UxDataArray(data, dims=["n_face"], uxgrid=g, name="v")
    history = [("split", None), ("exclude", ccrs.Robinson(central_longitude=-45)), ("ignore", None),
               ("exclude", None), ("split", None), ("exclude", ccrs.Orthographic(30, 20)), ("exclude", ccrs.Mercator(central_longitude=0.0))]
    for k, (pe, p) in enumerate(history):
        pn = "None" if p is None else type(p).__name__
        for eng in ("geopandas", "spatialpandas"):
            attempt("da.gdf %s #%d %s %s %s" % (gname, k, pe, pn, eng),
                    lambda: digest_gdf(uxda.to_geodataframe(periodic_elements=pe, projection=p, engine=eng)))

        def dapc():
            pc, idx = uxda.to_polycollection(periodic_elements=pe, projection=p, return_indices=True)
            return digest_collection(pc) + " idx=" + (h(np.asarray(idx)) if len(idx) else repr(idx))
        attempt("da.pc %s #%d %s %s" % (gname, k, pe, pn), dapc)
    attempt("ami %s" % gname, lambda: h(g.antimeridian_face_indices))

if os.path.exists("grid_geoflow.exo"):
    os.remove("grid_geoflow.exo")
