import sys, os

sys.path.insert(0, os.getcwd())

import hashlib
import warnings

import numpy as np

import uxarray
import uxarray as ux
from uxarray.constants import INT_FILL_VALUE

assert os.path.abspath(uxarray.__file__).startswith(os.path.abspath(os.getcwd()) + os.sep), uxarray.__file__

warnings.filterwarnings("ignore")
np.set_printoptions(precision=17, linewidth=200, threshold=100000)

AGGS = ["mean", "min", "max", "median", "std", "var", "sum", "prod", "all", "any"]


def digest(a):
    a = np.ascontiguousarray(a)
    return f"{a.dtype} {a.shape} {hashlib.sha256(a.tobytes()).hexdigest()[:16]}"


def make_grid(face_nodes, n_node, fill=INT_FILL_VALUE, seed=0):
    rng = np.random.default_rng(seed)
    lon = np.linspace(-170.0, 170.0, n_node) + rng.uniform(-1, 1, n_node)
    lat = np.linspace(-80.0, 80.0, n_node)[rng.permutation(n_node)]
    width = max(len(f) for f in face_nodes)
    conn = np.full((len(face_nodes), width), fill, dtype=np.int64)
    for i, f in enumerate(face_nodes):
        conn[i, : len(f)] = f
    return ux.Grid.from_topology(
        node_lon=lon, node_lat=lat, face_node_connectivity=conn, fill_value=fill
    )


GRIDS = {
    # uniform triangles
    "tri": ([[0, 1, 2], [1, 3, 2], [2, 3, 4]], 5),
    # mixed 3/4/5/6, sizes interleaved (face ordering not sorted by size)
    "mixed": (
        [
            [0, 1, 2, 3, 4, 5],
            [0, 1, 6],
            [1, 2, 7, 6],
            [2, 3, 8, 9, 7],
            [3, 4, 10],
            [4, 5, 11, 10],
            [5, 0, 6, 12, 11],
            [6, 7, 12],
        ],
        13,
    ),
    # single large face + triangles; one size occurs once, last face is the widest
    "lastwide": ([[0, 1, 2], [2, 3, 4], [0, 2, 4, 5, 6, 7, 8]], 9),
    # descending size order
    "desc": ([[0, 1, 2, 3, 4], [0, 1, 5, 6], [1, 2, 6]], 7),
    # single face
    "one": ([[0, 1, 2, 3]], 4),
    # different (negative) fill value in the input
    "fillneg": ([[0, 1, 2, 3], [1, 2, 4], [2, 3, 5, 6, 4]], 7),
}


def build(name):
    faces, n_node = GRIDS[name]
    if name == "fillneg":
        return make_grid(faces, n_node, fill=-1, seed=3)
    return make_grid(faces, n_node, seed=len(name))


def datasets(n_node):
    rng = np.random.default_rng(42)
    out = {}
    out["f64_1d"] = rng.normal(size=n_node)
    out["f64_2d"] = rng.normal(size=(3, n_node)) * 1e3
    out["f32_3d"] = rng.normal(size=(2, 2, n_node)).astype(np.float32)
    out["i64_1d"] = rng.integers(-5, 6, size=n_node)
    out["i32_2d"] = rng.integers(0, 4, size=(2, n_node)).astype(np.int32)
    out["bool_1d"] = rng.integers(0, 2, size=n_node).astype(bool)
    out["bool_2d"] = rng.integers(0, 3, size=(2, n_node)).astype(bool)
    nanarr = rng.normal(size=n_node)
    nanarr[0] = np.nan
    nanarr[-1] = np.inf
    out["nan_1d"] = nanarr
    out["empty_lead"] = np.zeros((0, n_node))
    return out


def dims_for(arr):
    lead = ["time", "lev", "ens"][: arr.ndim - 1]
    return lead + ["n_node"]


def run_one(grid, arr, name, agg, dest, **kw):
    uxda = ux.UxDataArray(arr, dims=dims_for(arr), uxgrid=grid, name=name)
    try:
        res = getattr(uxda, f"topological_{agg}")(destination=dest, **kw)
    except Exception as exc:  # noqa
        return f"EXC {type(exc).__name__}: {exc}"
    same_grid = res.uxgrid is grid
    return f"{type(res).__name__} dims={res.dims} name={res.name} samegrid={same_grid} {digest(res.values)}\n      {np.asarray(res.values).ravel()[:8]!r}"


def main_common():
    for gname in GRIDS:
        grid = build(gname)
        print(f"== grid {gname}: n_node={grid.n_node} n_face={grid.n_face} n_edge={grid.n_edge}")
        print("   fnc", digest(grid.face_node_connectivity.values), "nnpf", grid.n_nodes_per_face.values.tolist())
        for dname, arr in datasets(grid.n_node).items():
            for dest in ("face", "edge"):
                for agg in AGGS:
                    print(f"  {gname}/{dname}/{dest}/{agg}: {run_one(grid, arr, dname, agg, dest)}")
        # kwargs forwarded to the reduction
        arr = datasets(grid.n_node)["f64_2d"]
        for dest in ("face", "edge"):
            print(f"  {gname}/kw ddof std {dest}: {run_one(grid, arr, 'v', 'std', dest, ddof=1)}")
            print(f"  {gname}/kw dtype sum {dest}: {run_one(grid, arr, 'v', 'sum', dest, dtype=np.float32)}")
            print(f"  {gname}/kw axis clash {dest}: {run_one(grid, arr, 'v', 'mean', dest, axis=0)}")
            print(f"  {gname}/kw bogus {dest}: {run_one(grid, arr, 'v', 'mean', dest, bogus=1)}")

    # error paths
    grid = build("mixed")
    node_arr = np.arange(grid.n_node, dtype=float)
    for dest in (None, "node", "FACE", "faces", 3):
        print(f"  err node->{dest!r}: {run_one(grid, node_arr, 'v', 'mean', dest)}")
    face_da = ux.UxDataArray(np.arange(grid.n_face, dtype=float), dims=["n_face"], uxgrid=grid)
    edge_da = ux.UxDataArray(np.arange(grid.n_edge, dtype=float), dims=["n_edge"], uxgrid=grid)
    other_da = ux.UxDataArray(np.arange(2, dtype=float), dims=["other"], uxgrid=grid)
    for label, uxda in (("face", face_da), ("edge", edge_da), ("other", other_da)):
        for dest in ("face", "edge", "node", None):
            for agg in ("mean", "any"):
                try:
                    r = getattr(uxda, f"topological_{agg}")(destination=dest)
                    print(f"  err {label}->{dest!r} {agg}: returned {digest(r.values)}")
                except Exception as exc:  # noqa
                    print(f"  err {label}->{dest!r} {agg}: EXC {type(exc).__name__}: {exc}")

    # dask-backed input
    import dask.array as da

    arr = np.random.default_rng(7).normal(size=(4, grid.n_node))
    dask_da = ux.UxDataArray(da.from_array(arr, chunks=(2, 5)), dims=["time", "n_node"], uxgrid=grid, name="dk")
    for dest in ("face", "edge"):
        for agg in ("mean", "max", "prod"):
            r = getattr(dask_da, f"topological_{agg}")(destination=dest)
            print(f"  dask {dest}/{agg}: {type(r.data).__name__} dims={r.dims} {digest(r.values)}")

    # input not modified, repeated call gives identical answer (no state left behind)
    before = arr.copy()
    uxda = ux.UxDataArray(arr, dims=["time", "n_node"], uxgrid=grid)
    r1 = uxda.topological_median(destination="face").values
    r2 = uxda.topological_median(destination="face").values
    print("  input untouched", np.array_equal(before, arr), "repeatable", np.array_equal(r1, r2), "fresh", r1 is not r2)


def main_dispatch():
    """Direct calls of the (unchanged-name) dispatcher, incl. unknown reduction names."""
    from uxarray.core.aggregation import _uxda_grid_aggregate, NUMPY_AGGREGATIONS

    print("  table", sorted(NUMPY_AGGREGATIONS), [NUMPY_AGGREGATIONS[k] is getattr(np, k) for k in sorted(NUMPY_AGGREGATIONS)])
    grid = build("mixed")
    arr = np.random.default_rng(11).normal(size=(2, grid.n_node))
    uxda = ux.UxDataArray(arr, dims=["time", "n_node"], uxgrid=grid, name="direct")
    for dest in ("face", "edge", "node", None):
        for agg in ("mean", "prod", "bogus", None):
            for kw in ({}, {"keepdims": True}, {"ddof": 1}):
                try:
                    r = _uxda_grid_aggregate(uxda, dest, agg, **kw)
                    print(f"  direct {dest}/{agg}/{kw}: dims={r.dims} name={r.name} samegrid={r.uxgrid is grid} {digest(r.values)}")
                except Exception as exc:  # noqa
                    print(f"  direct {dest}/{agg}/{kw}: EXC {type(exc).__name__}: {exc}")
    # positional vs keyword destination on the public method
    r1 = uxda.topological_sum("face")
    r2 = uxda.topological_sum(destination="edge")
    print("  positional", r1.dims, digest(r1.values), r2.dims, digest(r2.values))
    # result does not alias the input, attrs/coords handling unchanged
    uxda2 = ux.UxDataArray(arr, dims=["time", "n_node"], uxgrid=grid, name="c", coords={"time": [10, 20]}, attrs={"units": "K"})
    for dest in ("face", "edge"):
        r = uxda2.topological_max(destination=dest)
        print(f"  coords {dest}:", sorted(r.coords), dict(r.attrs), np.shares_memory(r.values, arr), type(r).__name__)


def main_partitions():
    """Direct exercise of get_face_node_partitions (tuple protocol only)."""
    from uxarray.grid.connectivity import get_face_node_partitions

    cases = {
        "interleaved": np.array([6, 3, 4, 5, 3, 4, 5, 3]),
        "uniform": np.array([4, 4, 4, 4]),
        "single": np.array([5]),
        "desc": np.array([7, 6, 5, 4, 3]),
        "ties_many": np.random.default_rng(5).integers(3, 9, size=200),
        "empty": np.array([], dtype=np.int64),
        "int32": np.array([3, 4, 3, 4, 6], dtype=np.int32),
    }
    for cname, nn in cases.items():
        out = get_face_node_partitions(nn)
        print(f"  part {cname}: len={len(out)} istuple={isinstance(out, tuple)}")
        change_ind, sorted_ind, sizes, counts = out
        for label, a in (("change_ind", change_ind), ("sorted_ind", sorted_ind), ("sizes", sizes), ("counts", counts)):
            print(f"     {label}: {digest(a)} {np.asarray(a).tolist()[:12]}")
        print("     by index equal:", all(np.array_equal(out[i], x) for i, x in enumerate((change_ind, sorted_ind, sizes, counts))))


if __name__ == "__main__":
    main_common()
    main_dispatch()
    main_partitions()
