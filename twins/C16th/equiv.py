import sys, os

sys.path.insert(0, os.getcwd())

import hashlib
import warnings

import numpy as np
import xarray as xr

import uxarray as ux
from uxarray.constants import INT_FILL_VALUE
from uxarray.core import gradient as G

assert os.path.abspath(ux.__file__).startswith(os.path.abspath(os.getcwd()) + os.sep), ux.__file__

np.set_printoptions(precision=17, linewidth=200, threshold=60)


def dig(a):
    a = np.asarray(a)
    h = hashlib.sha256(np.ascontiguousarray(a).tobytes()).hexdigest()[:20]
    return f"{a.dtype}{a.shape} {h} flags(C={a.flags.c_contiguous},W={a.flags.writeable},own={a.flags.owndata})"


def show(label, fn):
    """Run fn, print digest of result or the exception, plus warnings."""
    with warnings.catch_warnings(record=True) as w:
        warnings.simplefilter("always")
        try:
            r = fn()
            if isinstance(r, (xr.DataArray,)):
                print(label, "->", type(r).__name__, r.name, r.dims, dig(r.values), dict(r.attrs))
                if r.size <= 40:
                    print("   ", repr(r.values))
            else:
                print(label, "->", type(r).__name__, dig(r))
                if np.asarray(r).size <= 40:
                    print("   ", repr(r))
        except Exception as e:  # noqa
            print(label, "-> EXC", type(e).__name__, str(e)[:160])
        for x in w:
            print("    WARN", x.category.__name__, str(x.message)[:120])


here = os.path.join(os.getcwd(), "test", "meshfiles")


def hand_grid():
    # 2 triangles + 1 quad + 1 pentagon patch: mixed sizes, fill values, boundary edges, n_face < n_node
    lon = np.array([0.0, 10.0, 20.0, 0.0, 10.0, 20.0, 30.0, 25.0, 15.0])
    lat = np.array([0.0, 0.0, 0.0, 10.0, 10.0, 10.0, 5.0, 18.0, 20.0])
    F = INT_FILL_VALUE
    conn = np.array(
        [
            [0, 1, 4, 3, F],
            [1, 2, 4, F, F],
            [2, 5, 4, F, F],
            [2, 6, 7, 8, 5],
        ]
    )
    return ux.Grid.from_topology(node_lon=lon, node_lat=lat, face_node_connectivity=conn, fill_value=F)


def single_tri():
    return ux.Grid.from_face_vertices([[[0.0, 0.0], [10.0, 0.0], [5.0, 8.0]]], latlon=True)


grids = {
    "hand": hand_grid,
    "single_tri": single_tri,
    "quadhex": lambda: ux.open_grid(os.path.join(here, "ugrid", "quad-hexagon", "grid.nc")),
    "mixed_exo": lambda: ux.open_grid(os.path.join(here, "exodus", "mixed", "mixed.exo")),
    "geoflow": lambda: ux.open_grid(os.path.join(here, "ugrid", "geoflow-small", "grid.nc")),
    "csne30": lambda: ux.open_grid(os.path.join(here, "ugrid", "outCSne30", "outCSne30.ug")),
    "mpas_primal": lambda: ux.open_grid(os.path.join(here, "mpas", "QU", "mesh.QU.1920km.151026.nc")),
    "mpas_dual": lambda: ux.open_grid(os.path.join(here, "mpas", "QU", "mesh.QU.1920km.151026.nc"), use_dual=True),
    "mpas_ocean": lambda: ux.open_grid(os.path.join(here, "mpas", "QU", "oQU480.231010.nc")),
}

for gname, mk in grids.items():
    print("=" * 10, gname)
    try:
        grid = mk()
    except Exception as e:
        print("could not build", type(e).__name__, str(e)[:200])
        continue
    print("n_node", grid.n_node, "n_face", grid.n_face, "n_edge", grid.n_edge, "n_max", grid.n_max_face_nodes)
    for nm in ("edge_node_distances", "edge_face_distances"):
        print(nm, "supplied:", nm in grid._ds)
        show(nm, lambda nm=nm: getattr(grid, nm))
        a, b = getattr(grid, nm), getattr(grid, nm)
        print("   cached:", nm in grid._ds, "shares:", np.shares_memory(a.values, b.values))
    efc = grid.edge_face_connectivity.values
    print("boundary edges:", int((efc[:, 1] == INT_FILL_VALUE).sum()), dig(efc))

    rng = np.random.default_rng(7)
    nf, nn, ne = grid.n_face, grid.n_node, grid.n_edge
    face_fields = {
        "f64_r1": rng.normal(size=nf),
        "f64_r2": rng.normal(size=(3, nf)),
        "f64_r3": rng.normal(size=(2, 3, nf)),
        "f32_r2": rng.normal(size=(2, nf)).astype(np.float32),
        "i64_r1": rng.integers(-50, 50, size=nf),
        "i32_r2": rng.integers(-50, 50, size=(2, nf)).astype(np.int32),
        "bool_r1": rng.integers(0, 2, size=nf).astype(bool),
        "const": np.full((2, nf), 3.5),
        "nan": np.where(np.arange(nf) % 3 == 0, np.nan, 1.0) * np.arange(nf),
        "empty_lead": np.zeros((0, nf)),
    }
    for fname, data in face_fields.items():
        dims = [f"d{i}" for i in range(data.ndim - 1)] + ["n_face"]
        for name in ("v", None):
            uxda = ux.UxDataArray(data, dims=dims, uxgrid=grid, name=name)
            show(f"diff[{fname},{name}]", lambda: uxda.difference(destination="edge"))
            if fname == "bool_r1":
                continue
            for norm in (False, True, None, 1, np.True_):
                show(f"grad[{fname},{name},norm={norm!r}]", lambda: uxda.gradient(normalize=norm))
        if fname == "bool_r1":
            continue
        before = data.copy()
        uxda = ux.UxDataArray(data, dims=dims, uxgrid=grid, name="v")
        r = uxda.gradient()
        print("   input untouched:", np.array_equal(before, data, equal_nan=True), "same grid:", r.uxgrid is grid,
              "shares input:", np.shares_memory(r.values, data))
    uxda = ux.UxDataArray(face_fields["f64_r1"], dims=["n_face"], uxgrid=grid, name="v")
    show("grad use_magnitude=False", lambda: uxda.gradient(use_magnitude=False))
    for dest in ("face", "node", "bogus"):
        show(f"diff face dest={dest}", lambda: uxda.difference(destination=dest))

    node_fields = {
        "f64_r1": rng.normal(size=nn),
        "f64_r3": rng.normal(size=(2, 2, nn)),
        "i64_r2": rng.integers(-9, 9, size=(2, nn)),
    }
    for fname, data in node_fields.items():
        dims = [f"d{i}" for i in range(data.ndim - 1)] + ["n_node"]
        uxda = ux.UxDataArray(data, dims=dims, uxgrid=grid, name="nv")
        show(f"node diff[{fname}]", lambda: uxda.difference())
        show(f"node grad[{fname}]", lambda: uxda.gradient())
    if ne != nf and ne != nn:
        uxda = ux.UxDataArray(np.zeros(ne), dims=["n_edge"], uxgrid=grid, name="ev")
        show("edge diff", lambda: uxda.difference())

    # direct helper calls
    dist = grid.edge_face_distances.values
    d = face_fields["f64_r3"]
    show("helper diff", lambda: G._calculate_edge_face_difference(d, efc, ne))
    show("helper grad", lambda: G._calculate_grad_on_edge_from_faces(d, efc, ne, dist))
    show("helper grad pos-norm", lambda: G._calculate_grad_on_edge_from_faces(d, efc, ne, dist, True))
    show("helper grad kw", lambda: G._calculate_grad_on_edge_from_faces(
        d_var=d, edge_faces=efc, n_edge=ne, edge_face_distances=dist, normalize=True))
    # non-contiguous / transposed views and read-only inputs
    dT = np.asfortranarray(d)
    show("helper grad F-order", lambda: G._calculate_grad_on_edge_from_faces(dT, efc, ne, dist, True))
    efc_ro = efc.copy(); efc_ro.setflags(write=False)
    d_ro = d.copy(); d_ro.setflags(write=False)
    show("helper grad readonly", lambda: G._calculate_grad_on_edge_from_faces(d_ro, efc_ro, ne, dist, False))
    show("helper diff int32 conn", lambda: G._calculate_edge_face_difference(d, efc.astype(np.int64)[:, ::1], ne))
    # mismatching sizes must fail the same way
    show("helper diff wrong n_edge", lambda: G._calculate_edge_face_difference(d, efc, ne + 1))
    show("helper grad wrong dist", lambda: G._calculate_grad_on_edge_from_faces(d, efc, ne, dist[:-1]))
    show("helper diff 0-d", lambda: G._calculate_edge_face_difference(np.float64(1.0), efc, ne))
    show("helper diff complex", lambda: G._calculate_edge_face_difference(d[0, 0] * (1 + 2j), efc, ne))

print("=" * 10, "synthetic connectivity")
F = INT_FILL_VALUE
cases = {
    "no_edges": np.zeros((0, 2), dtype=np.int64),
    "all_boundary": np.array([[0, F], [1, F], [2, F]]),
    "all_interior": np.array([[0, 1], [1, 2], [2, 0], [0, 0]]),
    "mixed": np.array([[0, 1], [2, F], [1, 2], [0, F], [2, 1]]),
    "first_fill": np.array([[F, 1], [0, 1]]),
}
vals = np.array([[1.0, 4.0, -2.5], [np.inf, 0.0, np.nan]])
for cname, ef in cases.items():
    ne = ef.shape[0]
    dist = np.linspace(0.5, 1.5, ne)
    show(f"{cname} diff r2", lambda: G._calculate_edge_face_difference(vals, ef, ne))
    show(f"{cname} diff r1", lambda: G._calculate_edge_face_difference(vals[0], ef, ne))
    show(f"{cname} grad", lambda: G._calculate_grad_on_edge_from_faces(vals, ef, ne, dist))
    show(f"{cname} grad norm", lambda: G._calculate_grad_on_edge_from_faces(vals[:1], ef, ne, dist, normalize=True))
    show(f"{cname} grad zero dist", lambda: G._calculate_grad_on_edge_from_faces(vals[0], ef, ne, np.zeros(ne), normalize=True))
    show(f"{cname} grad int dist", lambda: G._calculate_grad_on_edge_from_faces(vals[0], ef, ne, np.arange(1, ne + 1)))
    show(f"{cname} grad f32 dist", lambda: G._calculate_grad_on_edge_from_faces(vals[0], ef, ne, dist.astype(np.float32)))
show("node diff helper", lambda: G._calculate_edge_node_difference(vals, np.array([[0, 1], [2, 0]])))

# ---------------------------------------------------------------- distance tables: caching, aliasing, metadata
from uxarray.grid import neighbors as N

print("=" * 10, "distance tables")


def ds_vars(grid):
    return sorted(str(k) for k in grid._ds.variables)


for gname, mk in grids.items():
    if gname == "mpas_ocean":
        continue
    for order in (("edge_node_distances", "edge_face_distances"), ("edge_face_distances", "edge_node_distances")):
        grid = mk()
        print("-" * 4, gname, order)
        print("vars before:", ds_vars(grid))
        for nm in order:
            supplied = nm in grid._ds
            raw_before = grid._ds[nm].values if supplied else None
            a = getattr(grid, nm)
            print(nm, "supplied", supplied, type(a).__name__, a.name, a.dims, dig(a.values), dict(a.attrs), dict(a.encoding))
            print("  vars after:", ds_vars(grid))
            if supplied:
                print("  passthrough same memory:", np.shares_memory(raw_before, a.values))
            b = getattr(grid, nm)
            print("  second access same memory:", np.shares_memory(a.values, b.values), "same object:", a is b,
                  "same variable:", a.variable is b.variable)
            # attrs of the returned array vs the cached one
            a.attrs["scratch"] = 1
            print("  attrs after mutation of returned:", dict(getattr(grid, nm).attrs))
            # mutate cached values in place -> visible through the getter (no recompute)
            vals = getattr(grid, nm).values
            if vals.size and vals.flags.writeable:
                old = vals[0]
                vals[0] = -1.0
                print("  in-place visible:", getattr(grid, nm).values[0] == -1.0)
                vals[0] = old
        # setter then getter: user-supplied table wins, no recomputation
        custom = xr.DataArray(np.arange(grid.n_edge, dtype=np.float32), dims=["n_edge"], attrs={"mine": True})
        grid.edge_face_distances = custom
        got = grid.edge_face_distances
        print("setter/getter:", dig(got.values), dict(got.attrs), np.shares_memory(got.values, custom.values))
        show("setter non-DataArray", lambda: setattr(grid, "edge_node_distances", np.zeros(grid.n_edge)))
        # direct populate overwrites
        N._populate_edge_face_distances(grid)
        N._populate_edge_node_distances(grid)
        for nm in order:
            a = grid._ds[nm]
            print("repopulated", nm, a.dims, dig(a.values), dict(a.attrs))
        # gradient picks up whatever table is cached
        uxda = ux.UxDataArray(np.arange(grid.n_face, dtype=float) ** 1.5, dims=["n_face"], uxgrid=grid, name="q")
        show("grad after repopulate", lambda: uxda.gradient())
        grid.edge_face_distances = xr.DataArray(np.full(grid.n_edge, 2.0), dims=["n_edge"])
        show("grad with custom distances", lambda: uxda.gradient(normalize=True))

# two grids never share metadata dictionaries
g1, g2 = hand_grid(), hand_grid()
a1, a2 = g1.edge_face_distances, g2.edge_face_distances
a1.attrs["long_name"] = "changed"
g1._ds["edge_face_distances"].attrs["long_name"] = "changed in ds"
print("g1 attrs:", dict(g1.edge_face_distances.attrs), "g2 attrs:", dict(g2.edge_face_distances.attrs))
g3 = hand_grid()
print("fresh grid attrs:", dict(g3.edge_face_distances.attrs), dict(g3.edge_node_distances.attrs))
print("shares between grids:", np.shares_memory(g1.edge_face_distances.values, g2.edge_face_distances.values))

# independent geodesic check of the tables (haversine on the centres / nodes)
def hav(lon1, lat1, lon2, lat2):
    lon1, lat1, lon2, lat2 = map(np.deg2rad, (lon1, lat1, lon2, lat2))
    return 2 * np.arcsin(np.sqrt(np.sin((lat2 - lat1) / 2) ** 2 + np.cos(lat1) * np.cos(lat2) * np.sin((lon2 - lon1) / 2) ** 2))


for gname in ("hand", "quadhex", "mixed_exo", "geoflow", "csne30"):
    grid = grids[gname]()
    en = grid.edge_node_connectivity.values
    ef = grid.edge_face_connectivity.values
    nd = hav(grid.node_lon.values[en[:, 0]], grid.node_lat.values[en[:, 0]], grid.node_lon.values[en[:, 1]], grid.node_lat.values[en[:, 1]])
    m = ef[:, 1] != INT_FILL_VALUE
    fd = np.zeros(grid.n_edge)
    fd[m] = hav(grid.face_lon.values[ef[m, 0]], grid.face_lat.values[ef[m, 0]], grid.face_lon.values[ef[m, 1]], grid.face_lat.values[ef[m, 1]])
    print(gname, "max |node dist - haversine|", float(np.max(np.abs(grid.edge_node_distances.values - nd))),
          "max |face dist - haversine|", float(np.max(np.abs(grid.edge_face_distances.values - fd))),
          "boundary zeros:", bool(np.all(grid.edge_face_distances.values[~m] == 0.0)))

# subsetting carries / recomputes the tables
grid = grids["quadhex"]()
_ = grid.edge_face_distances, grid.edge_node_distances
sub = grid.isel(n_face=[0, 2])
print("subset vars:", ds_vars(sub))
show("subset efd", lambda: sub.edge_face_distances)
show("subset end", lambda: sub.edge_node_distances)
grid = grids["mpas_primal"]()
sub = grid.isel(n_face=[0, 1, 2, 5])
print("mpas subset vars:", ds_vars(sub))
show("mpas subset efd", lambda: sub.edge_face_distances)
show("mpas subset end", lambda: sub.edge_node_distances)
