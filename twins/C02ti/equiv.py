import sys, os

sys.path.insert(0, os.getcwd())

import hashlib
import warnings

import numpy as np

import uxarray
import uxarray as ux

assert os.path.abspath(uxarray.__file__).startswith(os.path.abspath(os.getcwd()) + os.sep), (
    uxarray.__file__
)

from uxarray.constants import INT_DTYPE, INT_FILL_VALUE
from uxarray.conventions import ugrid
from uxarray.grid import connectivity as conn

warnings.filterwarnings("ignore")
FV = INT_FILL_VALUE


def h(a):
    a = np.ascontiguousarray(a)
    return hashlib.sha256(a.tobytes()).hexdigest()[:16]


def show(name, a, full=True):
    a = np.asarray(a)
    print(
        f"  {name}: type=ndarray dtype={a.dtype} shape={a.shape} "
        f"C={a.flags['C_CONTIGUOUS']} W={a.flags['WRITEABLE']} sha={h(a)}"
    )
    if full and a.size <= 80:
        print("    " + repr(a.tolist()))


def make_grid(fnc, fill_value=FV, start_index=0):
    fnc = np.asarray(fnc)
    if fnc.size:
        real = fnc[fnc != fill_value]
        n_node = int(real.max()) - start_index + 1
    else:
        n_node = 1
    ang = np.linspace(0.0, 350.0, n_node)
    node_lon = ang
    node_lat = 60.0 * np.sin(np.deg2rad(ang * 3.0))
    return ux.Grid.from_topology(
        node_lon, node_lat, fnc, fill_value=fill_value, start_index=start_index
    )


def attrs_digest(attrs):
    out = []
    for k, v in attrs.items():
        if isinstance(v, np.ndarray):
            out.append((k, "ndarray", str(v.dtype), v.shape, h(v)))
        else:
            out.append((k, type(v).__name__, repr(v)))
    return out


def report_grid(label, grid, order):
    print(f"== {label} (access order: {order})")
    ugrid_edge_attrs_before = dict(ugrid.EDGE_NODE_CONNECTIVITY_ATTRS)
    ugrid_nnpf_attrs_before = dict(ugrid.N_NODES_PER_FACE_ATTRS)
    print("  vars before:", sorted(grid._ds.data_vars))
    for what in order:
        try:
            val = getattr(grid, what)
        except Exception as e:  # noqa
            print(f"  {what}: raised {type(e).__name__}: {e}")
            continue
        if isinstance(val, (int, np.integer)):
            print(f"  {what} = {val!r} ({type(val).__name__})")
        else:
            print(f"  {what}: dims={val.dims} sizes={dict(val.sizes)} name={val.name!r}")
            show(what + ".values", val.values)
            print(f"  {what}.attrs type={type(val.attrs).__name__}: {attrs_digest(val.attrs)}")
        print("  vars now:", sorted(grid._ds.data_vars))
        print("  dataset sizes:", dict(sorted(grid._ds.sizes.items())))
    if "edge_node_connectivity" in grid._ds:
        en = grid._ds["edge_node_connectivity"]
        inv = en.attrs.get("inverse_indices")
        msk = en.attrs.get("fill_value_mask")
        if inv is not None:
            show("attrs.inverse_indices", inv)
            show("attrs.fill_value_mask", msk)
            # aliasing: repeated access hands back the very same stored objects
            print("  inverse same obj on re-read:", grid.edge_node_connectivity.attrs["inverse_indices"] is inv)
            print("  mask same obj on re-read:", grid.edge_node_connectivity.attrs["fill_value_mask"] is msk)
            if "face_edge_connectivity" in grid._ds:
                fe = grid._ds["face_edge_connectivity"].values
                print("  face_edge shares memory with inverse_indices:", np.shares_memory(fe, inv))
        print("  attrs is not the ugrid constant:", en.attrs is not ugrid.EDGE_NODE_CONNECTIVITY_ATTRS)
        print("  edge values own data:", en.values.flags["OWNDATA"], "base None:", en.values.base is None)
    if "n_nodes_per_face" in grid._ds:
        nn = grid._ds["n_nodes_per_face"]
        print("  nnpf attrs equal ugrid constant:", dict(nn.attrs) == ugrid.N_NODES_PER_FACE_ATTRS,
              "distinct object:", nn.attrs is not ugrid.N_NODES_PER_FACE_ATTRS)
        print("  nnpf same obj on re-read:", grid.n_nodes_per_face.values is nn.values)
    print("  ugrid EDGE attrs constant untouched:", ugrid.EDGE_NODE_CONNECTIVITY_ATTRS == ugrid_edge_attrs_before,
          list(ugrid.EDGE_NODE_CONNECTIVITY_ATTRS))
    print("  ugrid NNPF attrs constant untouched:", ugrid.N_NODES_PER_FACE_ATTRS == ugrid_nnpf_attrs_before,
          list(ugrid.N_NODES_PER_FACE_ATTRS))


TABLES = {
    "single triangle": [[0, 1, 2]],
    "single quad": [[3, 1, 0, 2]],
    "two faces quad+tri (padded)": [[0, 1, 2, 3], [1, 4, 2, FV]],
    "mixed tri/quad/pent/hex": [
        [0, 1, 2, FV, FV, FV],
        [2, 1, 3, 4, FV, FV],
        [4, 3, 5, 6, 7, FV],
        [7, 6, 8, 9, 10, 11],
        [0, 2, 4, 7, 11, FV],
    ],
    "faces sharing several edges": [[0, 1, 2, 3], [3, 2, 1, 0], [0, 1, 4, FV]],
    "tetrahedron (closed)": [[0, 1, 2], [0, 3, 1], [1, 3, 2], [2, 3, 0]],
    "cube (closed, rotated starts)": [
        [0, 1, 2, 3],
        [5, 4, 7, 6],
        [1, 0, 4, 5],
        [6, 7, 3, 2],
        [2, 1, 5, 6],
        [4, 0, 3, 7],
    ],
    "all-padded wide table of triangles": [[0, 1, 2, FV, FV], [2, 1, 3, FV, FV]],
    "renumbered pyramid": [[4, 2, 0, FV], [0, 2, 3, FV], [3, 2, 1, FV], [1, 2, 4, FV], [4, 0, 3, 1]],
}

ORDERS = [
    ("n_nodes_per_face", "edge_node_connectivity", "n_edge", "face_edge_connectivity", "n_max_face_edges"),
    ("face_edge_connectivity", "n_edge", "edge_node_connectivity", "n_nodes_per_face"),
    ("n_edge", "n_nodes_per_face", "face_edge_connectivity"),
]

print("INT_DTYPE", np.dtype(INT_DTYPE), "FILL", FV)

for name, tab in TABLES.items():
    for order in ORDERS:
        g = make_grid(np.array(tab, dtype=INT_DTYPE))
        report_grid(name, g, order)

# foreign fill value / start index / dtype in the input table
g = make_grid(np.array([[1, 2, 3, 4], [2, 5, 3, -1]], dtype=np.int32), fill_value=-1, start_index=1)
report_grid("int32 table, fill -1, start_index 1", g, ORDERS[0])
g = make_grid(np.array([[0, 1, 2, 3, 99], [1, 4, 5, 2, 6]], dtype=np.uint16), fill_value=99)
report_grid("uint16 table, fill 99", g, ORDERS[1])

# direct calls of the populate functions, twice (re-population overwrites)
for name in ("mixed tri/quad/pent/hex", "single triangle", "cube (closed, rotated starts)"):
    g = make_grid(np.array(TABLES[name], dtype=INT_DTYPE))
    print(f"== direct populate: {name}")
    r1 = conn._populate_n_nodes_per_face(g)
    r2 = conn._populate_edge_node_connectivity(g)
    print("  return values:", r1, r2)
    first_inv = g._ds["edge_node_connectivity"].attrs["inverse_indices"]
    first_edges = g._ds["edge_node_connectivity"].values
    first_nn = g._ds["n_nodes_per_face"].values
    conn._populate_n_nodes_per_face(g)
    conn._populate_edge_node_connectivity(g)
    print("  fresh arrays on repopulate:",
          g._ds["edge_node_connectivity"].attrs["inverse_indices"] is not first_inv,
          g._ds["edge_node_connectivity"].values is not first_edges,
          g._ds["n_nodes_per_face"].values is not first_nn)
    report_grid("after direct populate " + name, g, ORDERS[0])
    # Euler characteristic where closed
    print("  euler:", g.n_node - g.n_edge + g.n_face)

# raw builders
print("== raw _build_n_nodes_per_face")
RAW = [
    np.array([[0, 1, 2]], dtype=INT_DTYPE),
    np.array([[0, 1, 2, FV]], dtype=INT_DTYPE),
    np.array(TABLES["mixed tri/quad/pent/hex"], dtype=INT_DTYPE),
    np.array(TABLES["cube (closed, rotated starts)"], dtype=INT_DTYPE),
    np.asfortranarray(np.array(TABLES["mixed tri/quad/pent/hex"], dtype=INT_DTYPE)),
    np.array(TABLES["mixed tri/quad/pent/hex"], dtype=INT_DTYPE)[::2],
    np.array([[0, 1, 2, FV], [FV, FV, FV, FV]], dtype=INT_DTYPE),
    np.zeros((0, 4), dtype=INT_DTYPE),
    np.array([[0, 1, 2, -1]], dtype=np.int32),
]
for a in RAW:
    before = a.copy()
    try:
        out = conn._build_n_nodes_per_face(a, a.shape[0], a.shape[1])
        show(f"nnpf{a.shape}/{a.dtype}", out)
    except Exception as e:  # noqa
        print(f"  nnpf{a.shape}/{a.dtype}: raised {type(e).__name__}")
    print("    input untouched:", np.array_equal(a, before))
for bad in [(np.array([[0, 1, 2]], dtype=INT_DTYPE), 2, 3), (np.array([[0, 1, 2]], dtype=INT_DTYPE), 1, 4)]:
    try:
        out = conn._build_n_nodes_per_face(*bad)
        show("bad-shape", out)
    except Exception as e:  # noqa
        print("  bad-shape raised", type(e).__name__)

print("== raw _build_edge_node_connectivity")
for a in RAW[:6]:
    before = a.copy()
    res = conn._build_edge_node_connectivity(a, a.shape[0], a.shape[1])
    print("  result type", type(res).__name__, len(res))
    for nm, r in zip(("edges", "inverse", "mask"), res):
        show(nm, r)
    print("    input untouched:", np.array_equal(a, before))

# sample files
print("== sample meshes")
base = os.path.join(os.getcwd(), "test", "meshfiles")
for rel in [
    ("ugrid", "quad-hexagon", "grid.nc"),
    ("ugrid", "geoflow-small", "grid.nc"),
    ("ugrid", "outCSne30", "outCSne30.ug"),
    ("mpas", "QU", "mesh.QU.1920km.151026.nc"),
]:
    p = os.path.join(base, *rel)
    for order in ORDERS[:2]:
        g = ux.open_grid(p)
        print("--", "/".join(rel), order)
        for what in order:
            v = getattr(g, what)
            if isinstance(v, (int, np.integer)):
                print(f"  {what} = {v!r}")
            else:
                print(f"  {what}: dims={v.dims}")
                show(what, v.values, full=False)
                print("   attrs:", attrs_digest(v.attrs))
        print("  euler:", g.n_node - g.n_edge + g.n_face)
