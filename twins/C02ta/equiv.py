import sys, os; sys.path.insert(0, os.getcwd())
import hashlib
import itertools
import warnings

import numpy as np

warnings.filterwarnings("ignore")

import uxarray
import uxarray as ux

assert os.path.abspath(uxarray.__file__).startswith(os.path.abspath(os.getcwd()) + os.sep), uxarray.__file__

from uxarray.constants import INT_DTYPE, INT_FILL_VALUE
from uxarray.grid.connectivity import (
    close_face_nodes,
    _build_n_nodes_per_face,
    _build_edge_node_connectivity,
    _build_face_edge_connectivity,
)

FV = INT_FILL_VALUE


def digest(arr):
    arr = np.asarray(arr)
    h = hashlib.sha256(np.ascontiguousarray(arr).tobytes()).hexdigest()[:16]
    return f"{arr.dtype}|{arr.shape}|C={arr.flags['C_CONTIGUOUS']}|W={arr.flags['WRITEABLE']}|{h}"


def table(rows):
    width = max(len(r) for r in rows)
    out = np.full((len(rows), width), FV, dtype=INT_DTYPE)
    for i, r in enumerate(rows):
        out[i, : len(r)] = r
    return out


def show(arr):
    # small arrays printed in full with the fill value abbreviated
    return repr(np.asarray(arr).tolist()).replace(str(FV), "F")


def run_builders(name, fn, verbose=True):
    n_face, n_max = fn.shape
    before = fn.copy()
    print(f"--- {name}: shape={fn.shape}")
    try:
        closed = close_face_nodes(fn, n_face, n_max)
        print(" closed     ", digest(closed), show(closed) if verbose else "")
        print(" closed own ", closed.flags["OWNDATA"], np.shares_memory(closed, fn))
    except Exception as e:  # noqa
        print(" closed EXC ", type(e).__name__, e)
    try:
        nn = _build_n_nodes_per_face(fn, n_face, n_max)
        print(" n_nodes    ", digest(nn), show(nn) if verbose else "")
    except Exception as e:  # noqa
        print(" n_nodes EXC", type(e).__name__, str(e)[:120])
    try:
        en, inv, mask = _build_edge_node_connectivity(fn, n_face, n_max)
        print(" edge_nodes ", digest(en), show(en) if verbose else "")
        print(" inverse    ", digest(inv), show(inv) if verbose else "")
        print(" fill_mask  ", digest(mask), show(mask) if verbose else "")
        fe = _build_face_edge_connectivity(inv, n_face, n_max)
        print(" face_edges ", digest(fe), show(fe) if verbose else "")
        print(" fe aliases inverse:", np.shares_memory(fe, inv), "types:", type(en).__name__, type(inv).__name__, type(mask).__name__)
    except Exception as e:  # noqa
        print(" edges EXC  ", type(e).__name__, str(e)[:120])
    print(" input untouched:", np.array_equal(before, fn))


def run_grid(name, fn, order, verbose=True, fill_value=None, start_index=0):
    n_node = int(fn[fn != (FV if fill_value is None else fill_value)].max()) + 1
    rng = np.random.default_rng(n_node)
    lon = rng.uniform(-180, 180, n_node)
    lat = rng.uniform(-90, 90, n_node)
    kw = {}
    if fill_value is not None:
        kw["fill_value"] = fill_value
    else:
        kw["fill_value"] = FV
    g = ux.Grid.from_topology(lon, lat, fn.copy(), start_index=start_index, **kw)
    print(f"=== grid {name} order={order}")
    for prop in order:
        val = getattr(g, prop)
        if hasattr(val, "values"):
            print(f"  {prop}: dims={val.dims} {digest(val.values)}", show(val.values) if verbose else "")
            print(f"    attrs keys: {sorted(val.attrs.keys())}")
        else:
            print(f"  {prop}: {val!r} ({type(val).__name__})")
    print("  ds vars:", sorted(g._ds.data_vars), "sizes:", dict(sorted((k, v) for k, v in g._ds.sizes.items())))
    en = g.edge_node_connectivity
    fe = g.face_edge_connectivity
    print("  fe shares inverse:", np.shares_memory(fe.values, en.attrs["inverse_indices"]))
    print("  inverse", digest(en.attrs["inverse_indices"]), "mask", digest(en.attrs["fill_value_mask"]))
    print("  cached identity:", g.edge_node_connectivity.values is g.edge_node_connectivity.values,
          np.shares_memory(g.face_edge_connectivity.values, fe.values))


ORDERS = [
    ("n_edge", "edge_node_connectivity", "face_edge_connectivity", "n_nodes_per_face", "n_max_face_edges"),
    ("face_edge_connectivity", "n_nodes_per_face", "edge_node_connectivity", "n_edge", "n_max_face_edges"),
    ("n_max_face_edges", "n_nodes_per_face", "n_edge", "face_edge_connectivity", "edge_node_connectivity"),
]

# ---------------------------------------------------------------- hand tables
HAND = {
    "single_triangle": table([[0, 1, 2]]),
    "single_quad": table([[3, 1, 0, 2]]),
    "single_padded_face": np.array([[0, 1, 2, FV, FV]], dtype=INT_DTYPE),
    "two_tris_shared_edge": table([[0, 1, 2], [2, 1, 3]]),
    "quad_plus_tri": table([[0, 1, 2, 3], [1, 4, 2]]),
    "tri_first_then_hex": table([[5, 6, 7], [0, 1, 2, 3, 4, 5], [7, 6, 1, 0]]),
    "pent_among_quads": table([[0, 1, 2, 3], [3, 2, 4, 5, 6], [6, 5, 7, 8]]),
    "all_sizes_3_to_7": table([[0, 1, 2], [2, 1, 3, 4], [4, 3, 5, 6, 7], [7, 6, 8, 9, 10, 11], [11, 10, 12, 13, 14, 15, 0]]),
    "share_two_edges": table([[0, 1, 2, 3], [2, 1, 0, 4]]),
    "share_all_edges_opposite": table([[0, 1, 2], [2, 1, 0]]),
    "duplicate_face": table([[0, 1, 2, 3], [0, 1, 2, 3]]),
    "tetrahedron_sphere": table([[0, 1, 2], [0, 3, 1], [1, 3, 2], [2, 3, 0]]),
    "cube_sphere": table([[0, 1, 2, 3], [7, 6, 5, 4], [0, 4, 5, 1], [1, 5, 6, 2], [2, 6, 7, 3], [3, 7, 4, 0]]),
    "prism_mixed_sphere": table([[0, 1, 2], [5, 4, 3], [0, 3, 4, 1], [1, 4, 5, 2], [2, 5, 3, 0]]),
    "pyramid_rot_corners": table([[3, 0, 1, 2], [4, 0, 1], [2, 4, 1], [3, 4, 2], [0, 4, 3]]),
    "high_node_numbers": table([[100, 7, 55], [55, 7, 3, 99]]),
    "wide_padding_only_tris": np.array([[0, 1, 2, FV, FV, FV], [2, 1, 3, FV, FV, FV]], dtype=INT_DTYPE),
    "disconnected_faces": table([[0, 1, 2], [3, 4, 5, 6], [7, 8, 9, 10, 11]]),
}

for name, fn in HAND.items():
    run_builders(name, fn)

for name in ["single_triangle", "single_padded_face", "quad_plus_tri", "tri_first_then_hex", "all_sizes_3_to_7",
             "share_two_edges", "tetrahedron_sphere", "cube_sphere", "prism_mixed_sphere", "pyramid_rot_corners",
             "wide_padding_only_tris"]:
    for order in ORDERS:
        run_grid(name, HAND[name], order)

# euler counts on closed hand meshes
for name in ["tetrahedron_sphere", "cube_sphere", "prism_mixed_sphere", "pyramid_rot_corners"]:
    fn = HAND[name]
    en, inv, mask = _build_edge_node_connectivity(fn, *fn.shape)
    print("euler", name, int(fn[fn != FV].max()) + 1 - en.shape[0] + fn.shape[0])

# non-default fill value / start index through the public constructor
fn1 = np.array([[1, 2, 3, -1], [3, 2, 4, 5], [5, 4, 6, -1]])
run_grid("fill_minus1_start1", fn1, ORDERS[0], fill_value=-1, start_index=1)
run_grid("fill_minus1_start1", fn1, ORDERS[1], fill_value=-1, start_index=1)

# -------------------------------------------- renumbering / corner rotations
rng = np.random.default_rng(2024)
base_rows = [[0, 1, 2, 3], [3, 2, 4, 5, 6], [6, 5, 7], [7, 5, 4, 8, 9, 10]]
for trial in range(6):
    perm = rng.permutation(11)
    rows = []
    for r in base_rows:
        k = int(rng.integers(0, len(r)))
        r2 = r[k:] + r[:k]
        if rng.random() < 0.5:
            r2 = r2[::-1]
        rows.append([int(perm[v]) for v in r2])
    face_order = rng.permutation(len(rows))
    rows = [rows[i] for i in face_order]
    run_builders(f"renumbered_{trial}", table(rows))

# -------------------------------------------- exhaustive small scope (hashed)
h = hashlib.sha256()
count = 0
rows3 = [list(p) for p in itertools.permutations(range(5), 3)]
rows4 = [list(p) for p in itertools.permutations(range(5), 4)]
allrows = rows3 + rows4
for i, ra in enumerate(allrows):
    for rb in allrows[i % 7 :: 7]:
        fn = table([ra, rb])
        en, inv, mask = _build_edge_node_connectivity(fn, *fn.shape)
        nn = _build_n_nodes_per_face(fn, *fn.shape)
        cl = close_face_nodes(fn, *fn.shape)
        fe = _build_face_edge_connectivity(inv, *fn.shape)
        for a in (en, inv, mask, nn, cl, fe):
            h.update(str(a.dtype).encode()); h.update(str(a.shape).encode()); h.update(np.ascontiguousarray(a).tobytes())
        count += 1
print("exhaustive two-face scope:", count, h.hexdigest())

h = hashlib.sha256()
count = 0
for ra in allrows[::3]:
    fn = table([ra])
    for width in (len(ra), len(ra) + 1, len(ra) + 3):
        fnw = np.full((1, width), FV, dtype=INT_DTYPE)
        fnw[0, : len(ra)] = ra
        en, inv, mask = _build_edge_node_connectivity(fnw, *fnw.shape)
        nn = _build_n_nodes_per_face(fnw, *fnw.shape)
        cl = close_face_nodes(fnw, *fnw.shape)
        for a in (en, inv, mask, nn, cl):
            h.update(str(a.dtype).encode()); h.update(str(a.shape).encode()); h.update(np.ascontiguousarray(a).tobytes())
        count += 1
print("exhaustive single-face scope:", count, h.hexdigest())

# -------------------------------------------- random large mixed tables
for seed, (n_face, n_node, kmax) in enumerate([(50, 40, 5), (400, 300, 8), (3000, 2500, 6), (2000, 50, 4), (1000, 5000, 10)]):
    r = np.random.default_rng(seed)
    rows = []
    for f in range(n_face):
        k = int(r.integers(3, kmax + 1))
        rows.append([int(v) for v in r.choice(n_node, size=k, replace=False)])
    fn = table(rows)
    if seed % 2 == 1:
        # make sure one column of pure padding exists as well
        fn = np.concatenate([fn, np.full((n_face, 1), FV, dtype=INT_DTYPE)], axis=1)
    run_builders(f"random_{seed}", fn, verbose=False)
    # non C-contiguous / read-only input views
    fn_f = np.asfortranarray(fn)
    en, inv, mask = _build_edge_node_connectivity(fn_f, *fn_f.shape)
    print(" fortran-order input:", digest(en), digest(inv), digest(mask), digest(close_face_nodes(fn_f, *fn_f.shape)))
    fn_ro = fn.copy(); fn_ro.setflags(write=False)
    en, inv, mask = _build_edge_node_connectivity(fn_ro, *fn_ro.shape)
    print(" read-only input:    ", digest(en), digest(inv), digest(mask), digest(_build_n_nodes_per_face(fn_ro, *fn_ro.shape)))

# -------------------------------------------- degenerate input: no faces
run_builders("zero_faces", np.empty((0, 4), dtype=INT_DTYPE))
run_builders("zero_width", np.empty((3, 0), dtype=INT_DTYPE))

# -------------------------------------------- sample files
FILES = [
    "test/meshfiles/ugrid/outCSne30/outCSne30.ug",
    "test/meshfiles/ugrid/outRLL1deg/outRLL1deg.ug",
    "test/meshfiles/ugrid/ov_RLL10deg_CSne4/ov_RLL10deg_CSne4.ug",
    "test/meshfiles/ugrid/geoflow-small/grid.nc",
    "test/meshfiles/ugrid/quad-hexagon/grid.nc",
    "test/meshfiles/mpas/QU/mesh.QU.1920km.151026.nc",
    "test/meshfiles/exodus/mixed/mixed.exo",
    "test/meshfiles/exodus/outCSne8/outCSne8.g",
    "test/meshfiles/scrip/outCSne8/outCSne8.nc",
]
for path in FILES:
    for order in ORDERS[:2]:
        try:
            g = ux.open_grid(path)
            print("### file", path, "order", order[0])
            for prop in order:
                val = getattr(g, prop)
                if hasattr(val, "values"):
                    print(f"  {prop}: dims={val.dims} {digest(val.values)} attrs={sorted(val.attrs.keys())}")
                else:
                    print(f"  {prop}: {val!r}")
            print("  euler:", g.n_node - g.n_edge + g.n_face,
                  "inverse", digest(g.edge_node_connectivity.attrs.get("inverse_indices", np.zeros(0))),
                  "edge_face", digest(g.edge_face_connectivity.values))
        except Exception as e:  # noqa
            print("### file", path, "EXC", type(e).__name__, str(e)[:160])
print("done")
