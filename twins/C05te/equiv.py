import sys, os; sys.path.insert(0, os.getcwd())
import hashlib
import warnings

warnings.filterwarnings("ignore")

import numpy as np
import uxarray
import uxarray as ux

assert os.path.abspath(uxarray.__file__).startswith(os.path.abspath(os.getcwd()) + os.sep), uxarray.__file__

from uxarray.constants import INT_DTYPE, INT_FILL_VALUE
from uxarray.grid import area as A

GAUSS_ORDERS = (1, 2, 3, 4, 5, 6, 7, 8, 9, 10)
TRI_ORDERS = (1, 4, 8, 10, 12)


def dig(a):
    """exact digest of an array: dtype, shape, flags and a hash of the raw bytes"""
    a = np.asarray(a)
    if a.dtype == object:  # e.g. face_jacobian is None for grids whose areas come from the file
        return "object " + repr(a.tolist())
    return "%s %s C=%s W=%s %s" % (
        a.dtype,
        a.shape,
        a.flags.c_contiguous,
        a.flags.writeable,
        hashlib.sha256(np.ascontiguousarray(a).tobytes()).hexdigest()[:20],
    )


def hexes(a):
    return " ".join(float(v).hex() for v in np.asarray(a).ravel())


print("== 1. quadrature tables, every supported order, bit for bit")
for name, fn, orders in (
    ("gauss", A.get_gauss_quadratureDG, GAUSS_ORDERS),
    ("tri", A.get_tri_quadratureDG, TRI_ORDERS),
):
    for o in orders:
        dG, dW = fn(o)
        print(name, o, "dG", dig(dG))
        print(name, o, "dW", dig(dW))
        print("   G:", hexes(dG))
        print("   W:", hexes(dW))
        # a second call must give fresh, equal arrays (the gauss rule is scaled in place)
        dG2, dW2 = fn(o)
        print(
            "   fresh:",
            dG is dG2,
            np.shares_memory(dG, dG2),
            np.shares_memory(dW, dW2),
            np.array_equal(dG, dG2),
            np.array_equal(dW, dW2),
        )
        # writing into a returned table must not disturb the next call
        dG[...] = -7.0
        dW[...] = -7.0
        dG3, dW3 = fn(o)
        print("   unspoilt:", np.array_equal(dG2, dG3), np.array_equal(dW2, dW3), type(dG3).__name__, type(dW3).__name__)
    # the python (non-jitted) version must agree too
    for o in orders:
        pg, pw = fn.py_func(o)
        jg, jw = fn(o)
        print(name, o, "py_func", dig(pg), dig(pw), np.array_equal(pg, jg), np.array_equal(pw, jw))


def sph(lon, lat):
    lon = np.deg2rad(np.asarray(lon, dtype=float))
    lat = np.deg2rad(np.asarray(lat, dtype=float))
    return np.cos(lat) * np.cos(lon), np.cos(lat) * np.sin(lon), np.sin(lat)


FACES = {
    "tri_equator": ([0.0, 20.0, 10.0], [0.0, 0.0, 15.0]),
    "quad_small": ([10.0, 15.0, 15.0, 10.0], [40.0, 40.0, 45.0, 45.0]),
    "quad_antimeridian": ([175.0, -175.0, -175.0, 175.0], [-5.0, -5.0, 5.0, 5.0]),
    "quad_antimeridian_360": ([175.0, 185.0, 185.0, 175.0], [-5.0, -5.0, 5.0, 5.0]),
    "pent": ([0.0, 12.0, 16.0, 6.0, -4.0], [50.0, 50.0, 60.0, 68.0, 60.0]),
    "hex": ([30.0, 40.0, 45.0, 40.0, 30.0, 25.0], [-10.0, -10.0, 0.0, 10.0, 10.0, 0.0]),
    "hept": ([0.0, 8.0, 14.0, 15.0, 9.0, 1.0, -5.0], [-60.0, -62.0, -58.0, -52.0, -47.0, -46.0, -53.0]),
    "oct_polar_cap": ([0.0, 45.0, 90.0, 135.0, 180.0, 225.0, 270.0, 315.0], [80.0] * 8),
    "tri_pole_vertex": ([0.0, 90.0, 0.0], [60.0, 60.0, 90.0]),
    "quad_big_65deg": ([0.0, 60.0, 60.0, 0.0], [-25.0, -25.0, 25.0, 25.0]),
    "south_cap": ([0.0, -90.0, -180.0, 90.0], [-85.0, -85.0, -85.0, -85.0]),
    "tri_clockwise": ([0.0, 10.0, 20.0], [0.0, 15.0, 0.0]),
}

print("== 2. calculate_face_area per face, every rule and order, both coordinate inputs, rotated start corner")
for fname, (lon, lat) in FACES.items():
    lon = np.array(lon, dtype=np.float64)
    lat = np.array(lat, dtype=np.float64)
    cx, cy, cz = sph(lon, lat)
    zero = lon * 0.0
    for rule, orders in (("gaussian", GAUSS_ORDERS), ("triangular", TRI_ORDERS)):
        for o in orders:
            for shift in (0, 1, len(lon) - 1):
                a_s = A.calculate_face_area(np.roll(lon, shift), np.roll(lat, shift), np.roll(zero, shift), rule, o, "spherical")
                a_c = A.calculate_face_area(np.roll(cx, shift), np.roll(cy, shift), np.roll(cz, shift), rule, o, "cartesian")
                print(
                    fname, rule, o, shift,
                    float(a_s[0]).hex(), float(a_s[1]).hex(),
                    float(a_c[0]).hex(), float(a_c[1]).hex(),
                    type(a_s[0]).__name__, type(a_s[1]).__name__,
                )
# defaults of the jitted function
lon = np.array(FACES["pent"][0]); lat = np.array(FACES["pent"][1])
print("defaults", [float(v).hex() for v in A.calculate_face_area(lon, lat, lon * 0.0)])
try:
    A.calculate_face_area(lon, lat, lon * 0.0, "simpson", 4, "spherical")
    print("bad rule: no error")
except Exception as e:
    print("bad rule:", type(e).__name__, e)

print("== 3. get_all_face_area_from_coords, mixed face sizes with fill values")
names = ["tri_equator", "quad_small", "oct_polar_cap", "pent", "hex", "quad_antimeridian", "hept", "tri_pole_vertex"]
all_lon, all_lat, conn, npf = [], [], [], []
for nme in names:
    lo, la = FACES[nme]
    start = len(all_lon)
    all_lon += lo
    all_lat += la
    row = list(range(start, start + len(lo)))
    npf.append(len(row))
    conn.append(row + [INT_FILL_VALUE] * (8 - len(row)))
all_lon = np.array(all_lon, dtype=np.float64)
all_lat = np.array(all_lat, dtype=np.float64)
conn = np.array(conn, dtype=INT_DTYPE)
npf = np.array(npf, dtype=INT_DTYPE)
# renumber the nodes with a fixed permutation so that the gather is not the identity
rng = np.random.default_rng(5)
perm = rng.permutation(len(all_lon))
inv = np.empty_like(perm)
inv[perm] = np.arange(len(perm))
p_lon = all_lon[perm]
p_lat = all_lat[perm]
p_conn = conn.copy()
mask = conn != INT_FILL_VALUE
p_conn[mask] = inv[conn[mask]]
px, py, pz = sph(p_lon, p_lat)
for rule, orders in (("gaussian", GAUSS_ORDERS), ("triangular", TRI_ORDERS)):
    for o in orders:
        r1 = A.get_all_face_area_from_coords(p_lon, p_lat, p_lon * 0.0, p_conn, npf, 2, rule, o, "spherical")
        r2 = A.get_all_face_area_from_coords(px, py, pz, p_conn, npf, 3, rule, o, "cartesian")
        print(rule, o, "sph", dig(r1[0]), dig(r1[1]))
        print(rule, o, "car", dig(r2[0]), dig(r2[1]))
        print("   ", hexes(r1[0]))
r = A.get_all_face_area_from_coords(px, py, pz, p_conn, npf, 3, coords_type="cartesian")
print("defaults cart", dig(r[0]), dig(r[1]), hexes(r[0]))
r = A.get_all_face_area_from_coords(p_lon, p_lat, p_lon * 0.0, p_conn, npf, 2)
print("defaults sph", dig(r[0]), dig(r[1]), hexes(r[0]))

print("== 4. Grid level: compute_face_areas / face_areas / face_jacobian / calculate_total_face_area")


def grid_report(tag, g, full=True):
    # cached property first on a fresh grid
    fa = g.face_areas
    print(tag, "face_areas", type(fa).__name__, fa.dims, dict(fa.attrs), dig(fa.values))
    print(tag, "cache is same object", g.face_areas is g._ds["face_areas"], "face_areas" in g._ds)
    print(tag, "face_jacobian", dig(g.face_jacobian))
    fresh = g.compute_face_areas()
    print(tag, "fresh default", type(fresh).__name__, len(fresh), dig(fresh[0]), dig(fresh[1]), np.array_equal(fresh[0], fa.values))
    print(tag, "fresh aliases cache", np.shares_memory(fresh[0], g._ds["face_areas"].values), fresh[1] is g._face_jacobian, fresh[0] is g._face_areas)
    combos = [("gaussian", o) for o in GAUSS_ORDERS] + [("triangular", o) for o in TRI_ORDERS]
    if not full:
        combos = [("gaussian", 1), ("gaussian", 4), ("gaussian", 10), ("triangular", 1), ("triangular", 4), ("triangular", 12)]
    for rule, o in combos:
        for latlon in (True, False):
            try:
                a, j = g.compute_face_areas(rule, o, latlon)
            except Exception as e:  # e.g. float32 lon/lat grids cannot be typed; line numbers are left out
                print(tag, rule, o, latlon, type(e).__name__, str(e).splitlines()[0][:80])
                continue
            print(tag, rule, o, latlon, dig(a), dig(j), "jac attr follows:", g.face_jacobian is j, g._face_areas is a)
        print(tag, rule, o, "total", float(g.calculate_total_face_area(rule, o)).hex(), type(g.calculate_total_face_area(rule, o)).__name__)
    print(tag, "total default", float(g.calculate_total_face_area()).hex())
    try:
        print(tag, "kw call", dig(g.compute_face_areas(order=8, latlon=False, quadrature_rule="triangular")[0]))
    except Exception as e:
        print(tag, "kw call", type(e).__name__, str(e).splitlines()[0][:80])
    for flag in (1, 0, None, "yes", ""):
        try:
            print(tag, "truthy latlon", repr(flag), dig(g.compute_face_areas("gaussian", 3, flag)[0]))
        except Exception as e:
            print(tag, "truthy latlon", repr(flag), type(e).__name__, str(e).splitlines()[0][:80])
    # the cached variable is still the default-rule one after all those calls
    print(tag, "cache unchanged", np.array_equal(g.face_areas.values, fa.values), g.face_areas is fa or np.shares_memory(g.face_areas.values, fa.values))
    try:
        g.compute_face_areas("simpson", 4)
        print(tag, "bad rule: no error")
    except Exception as e:
        print(tag, "bad rule:", type(e).__name__, e)


g = ux.Grid.from_topology(p_lon, p_lat, p_conn, fill_value=INT_FILL_VALUE)
grid_report("mixed", g)

# integer-typed coordinates (exercise the float cast)
ilon = np.array([0, 20, 20, 0, 40, 40, 30], dtype=np.int64)
ilat = np.array([0, 0, 15, 15, 0, 15, 30], dtype=np.int64)
iconn = np.array([[0, 1, 2, 3], [1, 4, 5, 2], [2, 5, 6, INT_FILL_VALUE]], dtype=INT_DTYPE)
gi = ux.Grid.from_topology(ilon, ilat, iconn, fill_value=INT_FILL_VALUE)
grid_report("intcoords", gi, full=False)
f32 = ux.Grid.from_topology(ilon.astype(np.float32), ilat.astype(np.float32), iconn, fill_value=INT_FILL_VALUE)
try:
    grid_report("float32", f32, full=False)
except Exception as e:
    print("float32:", type(e).__name__, str(e)[:200])

# clockwise faces: negative jacobian must be reported the same way, with the same side effects
gc = ux.Grid.from_topology(
    np.array([0.0, 10.0, 20.0, 30.0]), np.array([0.0, 15.0, 0.0, 15.0]),
    np.array([[0, 1, 2], [1, 3, 2]], dtype=INT_DTYPE), fill_value=INT_FILL_VALUE,
)
for args in ((), ("gaussian", 4), ("triangular", 8, False)):
    try:
        r = gc.compute_face_areas(*args)
        print("clockwise", args, dig(r[0]), dig(r[1]), hexes(r[0]))
    except Exception as e:
        print("clockwise", args, type(e).__name__, e)
    print("   state:", dig(gc._face_areas), dig(gc._face_jacobian), "face_areas" in gc._ds)
try:
    print("clockwise face_areas", dig(gc.face_areas.values))
except Exception as e:
    print("clockwise face_areas", type(e).__name__, e, "face_areas" in gc._ds)
try:
    print("clockwise total", float(gc.calculate_total_face_area()).hex())
except Exception as e:
    print("clockwise total", type(e).__name__, e)

# sphere-tiling grids from the test data
for tag, path, full in (
    ("ne30", "test/meshfiles/ugrid/outCSne30/outCSne30.ug", False),
    ("quadhex", "test/meshfiles/ugrid/quad-hexagon/grid.nc", True),
    ("mpas", "test/meshfiles/mpas/QU/mesh.QU.1920km.151026.nc", False),
    ("exo_mixed", "test/meshfiles/exodus/mixed/mixed.exo", False),
):
    gg = ux.open_grid(path)
    grid_report(tag, gg, full=full)

# data-level caller (UxDataArray.integrate goes through compute_face_areas)
gd = ux.Grid.from_topology(p_lon, p_lat, p_conn, fill_value=INT_FILL_VALUE)
try:
    da = ux.UxDataArray(np.arange(1.0, gd.n_face + 1.0), dims=["n_face"], uxgrid=gd, name="v")
    for args in ((), ("gaussian", 7), ("triangular", 10)):
        r = da.integrate(*args)
        print("integrate dataarray", args, float(np.asarray(r.values)).hex())
except Exception as e:
    print("integrate dataarray", type(e).__name__, str(e).splitlines()[0][:80])
enc = ux.open_grid("test/meshfiles/ugrid/quad-hexagon/grid.nc")
sc = enc.encode_as("SCRIP")
print("scrip grid_area", dig(sc["grid_area"].values), np.shares_memory(sc["grid_area"].values, enc.face_areas.values))

print("== 5. negative-jacobian guard and empty grid (area kernel replaced by a stub inside uxarray.grid.grid)")
import uxarray.grid.grid as G

_real = G.get_all_face_area_from_coords
_calls = []


def _stub_factory(jac):
    def _stub(*args, **kwargs):
        # record how the kernel was reached: number of values and their types/dtypes, by position or by name
        real_names = ["x", "y", "z", "face_nodes", "face_geometry", "dim", "quadrature_rule", "order", "coords_type"]
        bound = dict(zip(real_names, args))
        bound.update(kwargs)
        _calls.append(
            [
                (k, dig(v) if isinstance(v, np.ndarray) else (type(v).__name__, v))
                for k, v in sorted(bound.items())
            ]
        )
        return np.array(jac, dtype=float) * 2.0, np.array(jac, dtype=float)

    return _stub


gs = ux.Grid.from_topology(p_lon, p_lat, p_conn, fill_value=INT_FILL_VALUE)
for jac in ([1.0, -0.25, 3.0], [0.0, 0.0], [-1.0], [float("nan"), 1.0], []):
    G.get_all_face_area_from_coords = _stub_factory(jac)
    try:
        for args in ((), ("gaussian", 6, False)):
            try:
                r = gs.compute_face_areas(*args)
                print("stub", jac, args, "->", dig(r[0]), dig(r[1]))
            except Exception as e:
                print("stub", jac, args, type(e).__name__, e)
            print("   state:", dig(gs._face_areas), dig(gs._face_jacobian), "face_areas" in gs._ds)
        try:
            print("stub total", float(gs.calculate_total_face_area()).hex())
        except Exception as e:
            print("stub total", type(e).__name__, e)
    finally:
        G.get_all_face_area_from_coords = _real
print("kernel calls:", len(_calls))
for c in sorted(set(repr(c) for c in _calls)):
    print("kernel args:", c)
