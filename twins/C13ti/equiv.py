import sys, os; sys.path.insert(0, os.getcwd())
import hashlib
import warnings

import numpy as np

import uxarray
assert os.path.abspath(uxarray.__file__).startswith(os.path.abspath(os.getcwd()) + os.sep), uxarray.__file__

from uxarray.constants import INT_FILL_VALUE, ERROR_TOLERANCE, INT_DTYPE
from uxarray.utils import computing as C
from uxarray.grid import geometry as G

warnings.simplefilter("ignore")


def dig(x):
    """type/dtype/shape/bytes digest of a result."""
    if isinstance(x, np.ndarray):
        h = hashlib.sha1(np.ascontiguousarray(x).tobytes()).hexdigest()[:16]
        return f"ndarray[{x.dtype},{x.shape}]{h}"
    if isinstance(x, np.generic):
        return f"{type(x).__name__}:{x.tobytes().hex()}"
    if isinstance(x, float):
        return f"float:{x.hex()}"
    return f"{type(x).__name__}:{x!r}"


def run(label, fn, *a, **k):
    try:
        r = fn(*a, **k)
        print(label, "->", dig(r), repr(r).replace("\n", " "))
        return r
    except Exception as e:  # noqa
        print(label, "-> EXC", type(e).__name__, str(e)[:160])
        return None


# --------------------------------------------------------------------------
# 1. njit wrappers of utils.computing
# --------------------------------------------------------------------------
print("== computing wrappers")
hp = 0.5 * np.pi
arr_a = np.array([1.0, 1.0 + 5e-9, 1.0 + 2e-8, 1.0 + 1e-5, 1.0 + 2e-5, np.nan, np.inf, -np.inf, 0.0, 1e-9])
arr_b = np.array([1.0, 1.0, 1.0, 1.0, 1.0, np.nan, np.inf, np.inf, 1e-8, 0.0])
run("isclose arr default", C.isclose, arr_a, arr_b)
run("isclose arr kw", C.isclose, arr_a, arr_b, rtol=0.0, atol=ERROR_TOLERANCE)
run("isclose arr kw atol", C.isclose, arr_a, arr_b, atol=ERROR_TOLERANCE)
run("isclose arr kw rtol", C.isclose, arr_a, arr_b, rtol=1e-3)
run("isclose arr positional", C.isclose, arr_a, arr_b, 1e-6, 1e-9)
run("isclose arr swapped kw", C.isclose, arr_a, arr_b, atol=1e-7, rtol=1e-9)
for x, y in [(hp, hp), (hp, hp - 5e-9), (hp, hp - 5e-6), (hp, hp - 2e-5), (0.0, 1e-8), (0.0, 1.0000001e-8),
             (0.0, 0.99e-8), (1e-8, 0.0), (-hp, hp), (np.float64(1.0), 1), (1, 1), (0, 1e-9)]:
    run(f"isclose scalar {x!r},{y!r} default", C.isclose, x, y)
    run(f"isclose scalar {x!r},{y!r} atol", C.isclose, x, y, atol=ERROR_TOLERANCE)
    run(f"isclose scalar {x!r},{y!r} r0", C.isclose, x, y, rtol=0.0, atol=ERROR_TOLERANCE)
    run(f"allclose scalar {x!r},{y!r} default", C.allclose, x, y)
    run(f"allclose scalar {x!r},{y!r} kw", C.allclose, x, y, rtol=0.0, atol=ERROR_TOLERANCE)
run("isclose scalar-vs-array", C.isclose, hp - 1e-9, np.asarray([0.5 * np.pi, -0.5 * np.pi]), atol=ERROR_TOLERANCE)
run("isclose scalar-vs-array 2", C.isclose, -hp + 1e-9, np.asarray([0.5 * np.pi, -0.5 * np.pi]), atol=ERROR_TOLERANCE)
run("isclose scalar-vs-array 3", C.isclose, 0.3, np.asarray([0.5 * np.pi, -0.5 * np.pi]), atol=ERROR_TOLERANCE)
run("allclose arr default", C.allclose, arr_a[:4], arr_b[:4])
run("allclose arr default2", C.allclose, arr_a[:5], arr_b[:5])
run("allclose arr kw", C.allclose, arr_a[:3], arr_b[:3], rtol=0.0, atol=ERROR_TOLERANCE)
run("allclose arr kw2", C.allclose, arr_a[:3], arr_b[:3], atol=1e-7)
run("allclose arr positional", C.allclose, arr_a[:3], arr_b[:3], 0.0, 1e-9)
run("allclose nan", C.allclose, arr_a, arr_b)
run("allclose pole", C.allclose, np.array([1e-9, -1e-9, 1.0]), np.array([0.0, 0.0, 1.0]), atol=ERROR_TOLERANCE)
run("allclose pole2", C.allclose, np.array([1e-7, 0.0, 1.0]), np.array([0.0, 0.0, 1.0]), atol=ERROR_TOLERANCE)
run("all true", C.all, np.array([True, True]))
run("all false", C.all, np.array([True, False]))
run("all float", C.all, np.array([1.0, 2.0, 0.0]))
run("all 2d", C.all, np.array([[1, 2], [3, 4]]))
run("all empty", C.all, np.array([], dtype=np.float64))
rng = np.random.default_rng(20240913)
for t in range(6):
    u = rng.normal(size=3)
    v = rng.normal(size=3)
    run(f"cross {t}", C.cross, u, v)
    run(f"dot {t}", C.dot, u, v)
run("cross int", C.cross, np.array([1, 0, 0]), np.array([0, 1, 0]))
run("cross f32", C.cross, np.array([1, 2, 3], dtype=np.float32), np.array([0, 1, 0], dtype=np.float32))
run("dot int", C.dot, np.array([1, 2, 3]), np.array([4, 5, 6]))
run("dot mixed", C.dot, np.array([1.0, 2.0, 3.0]), np.array([4.0, 5.0, 6.0]))
run("dot 2d", C.dot, np.eye(3), np.array([4.0, 5.0, 6.0]))
run("cross bad", C.cross, np.array([1.0, 2.0]), np.array([4.0, 5.0]))
run("norm", C.norm, np.array([3.0, 4.0, 12.0]))
print("signatures", sorted(n for n in ("all", "isclose", "allclose", "cross", "dot") if hasattr(C, n)))
import inspect
for n in ("isclose", "allclose"):
    print(n, inspect.signature(getattr(C, n).py_func))


# --------------------------------------------------------------------------
# 2. _insert_pt_in_latlonbox
# --------------------------------------------------------------------------
print("== _insert_pt_in_latlonbox")
F = INT_FILL_VALUE
boxes = {
    "empty": np.full((2, 2), F, dtype=np.float64),
    "emptyint": np.full((2, 2), F, dtype=INT_DTYPE),
    "latonly": np.array([[0.1, 0.2], [F, F]], dtype=np.float64),
    "plain": np.array([[0.1, 0.6], [1.0, 2.0]]),
    "wrap": np.array([[-0.3, 0.2], [6.0, 0.3]]),
    "wrapwide": np.array([[-0.3, 0.2], [3.5, 3.0]]),
    "degenerate": np.array([[0.1, 0.1], [1.0, 1.0]]),
    "full": np.array([[1.0, hp], [0.0, 2 * np.pi]]),
    "listbox": [[0.1, 0.6], [1.0, 2.0]],
    "intbox": np.array([[0, 1], [1, 2]], dtype=np.int64),
    "f32": np.array([[0.1, 0.6], [1.0, 2.0]], dtype=np.float32),
    "fortran": np.asfortranarray(np.array([[0.1, 0.6], [1.0, 2.0]])),
}
pts = {
    "fill": np.array([F, F], dtype=np.float64),
    "fillint": np.array([F, F], dtype=INT_DTYPE),
    "npole": np.array([hp, F], dtype=np.float64),
    "npole-near": np.array([hp - 5e-9, F], dtype=np.float64),
    "npole-far": np.array([hp - 5e-6, F], dtype=np.float64),
    "spole": np.array([-hp, F], dtype=np.float64),
    "spole-near": np.array([-hp + 5e-9, F], dtype=np.float64),
    "midfill": np.array([0.3, F], dtype=np.float64),
    "inside": np.array([0.3, 1.5]),
    "left": np.array([0.0, 0.5]),
    "right": np.array([0.7, 2.5]),
    "far": np.array([-0.9, 4.6]),
    "opp": np.array([0.2, 1.5 + np.pi]),
    "edge-lo": np.array([0.1, 1.0]),
    "edge-hi": np.array([0.6, 2.0]),
    "zero": np.array([0.0, 0.0]),
    "twopi": np.array([0.0, 2 * np.pi]),
    "neg": np.array([0.2, -0.1]),
    "big": np.array([0.2, 7.0]),
    "inwrap": np.array([0.0, 6.2]),
    "outwrap": np.array([0.0, 3.2]),
    "polelon": np.array([hp, 1.0]),
    "list": [0.3, 2.5],
    "tuple": (0.3, 0.5),
    "nanlon": np.array([0.3, np.nan]),
    "nanlat": np.array([np.nan, 1.5]),
    "three": np.array([0.3, 1.5, 2.0]),
}
for bn, b in boxes.items():
    for pn, p in pts.items():
        for per in (True, False):
            b0 = np.array(b, copy=True) if isinstance(b, np.ndarray) else [list(r) for r in b]
            r = run(f"ins {bn} {pn} per={per}", G._insert_pt_in_latlonbox, b, p, per)
            same = (np.array_equal(np.asarray(b0), np.asarray(b), equal_nan=True))
            print("   input-unchanged", same, "aliases-input", r is b)
run("ins default-arg", G._insert_pt_in_latlonbox, boxes["wrap"], pts["outwrap"])
run("ins kw", G._insert_pt_in_latlonbox, old_box=boxes["wrap"], new_pt=pts["outwrap"], is_lon_periodic=False)
for bn, b in boxes.items():
    run(f"width {bn}", G._get_latlonbox_width, b)

# chained insertion of random points (exercises the periodic growth rule)
for t in range(12):
    box = np.full((2, 2), F, dtype=np.float64)
    c = rng.uniform(0, 2 * np.pi)
    acc = []
    for s in range(9):
        p = np.array([rng.uniform(-1.4, 1.4), c + rng.uniform(-1.2, 1.2)])
        box = G._insert_pt_in_latlonbox(box, p)
        acc.append(dig(box))
    print(f"chain {t}", " ".join(acc), repr(box).replace("\n", " "))


# --------------------------------------------------------------------------
# 3. _populate_face_latlon_bound on generated faces
# --------------------------------------------------------------------------
print("== _populate_face_latlon_bound")


def lonlat_to_xyz(lon, lat):
    return np.array([np.cos(lat) * np.cos(lon), np.cos(lat) * np.sin(lon), np.sin(lat)])


def rot_to(center_lon, center_lat):
    # rotation taking the north pole to (center_lon, center_lat)
    colat = np.pi / 2 - center_lat
    ry = np.array([[np.cos(colat), 0, np.sin(colat)], [0, 1, 0], [-np.sin(colat), 0, np.cos(colat)]])
    rz = np.array([[np.cos(center_lon), -np.sin(center_lon), 0], [np.sin(center_lon), np.cos(center_lon), 0], [0, 0, 1]])
    return rz @ ry


def make_face(k, clon, clat, radius, phase, jitter, reverse=False):
    ang = phase + 2 * np.pi * (np.arange(k) + jitter) / k
    pts_local = np.stack([np.sin(radius) * np.cos(ang), np.sin(radius) * np.sin(ang), np.full(k, np.cos(radius))], axis=1)
    xyz = pts_local @ rot_to(clon, clat).T
    if reverse:
        xyz = xyz[::-1]
    xyz = xyz / np.linalg.norm(xyz, axis=1)[:, None]
    return np.ascontiguousarray(xyz)


def face_arrays(xyz, pad=0):
    k = len(xyz)
    lon = np.mod(np.arctan2(xyz[:, 1], xyz[:, 0]), 2 * np.pi)
    lat = np.arcsin(np.clip(xyz[:, 2], -1, 1))
    cart = np.stack([xyz, np.roll(xyz, -1, axis=0)], axis=1)
    ll = np.stack([lon, lat], axis=1)
    llr = np.stack([ll, np.roll(ll, -1, axis=0)], axis=1)
    if pad:
        cart = np.concatenate([cart, np.full((pad, 2, 3), F, dtype=np.float64)])
        llr = np.concatenate([llr, np.full((pad, 2, 2), F, dtype=np.float64)])
    return cart, llr


cases = []
for k in range(3, 9):
    for t in range(7):
        clon = rng.uniform(0, 2 * np.pi)
        clat = rng.uniform(-1.5, 1.5)
        radius = rng.uniform(0.01, 0.6)
        cases.append((f"rand k={k} t={t}", make_face(k, clon, clat, radius, rng.uniform(0, 6.28), rng.uniform(-0.2, 0.2, k), reverse=bool(t % 2))))
# special placements
for k in (3, 4, 5, 8):
    cases.append((f"npole-centre k={k}", make_face(k, 0.3, np.pi / 2, 0.3, 0.1, np.zeros(k))))
    cases.append((f"spole-centre k={k}", make_face(k, 0.3, -np.pi / 2, 0.3, 0.1, np.zeros(k), reverse=True)))
    cases.append((f"npole-inside-offcentre k={k}", make_face(k, 1.0, np.pi / 2 - 0.1, 0.3, 0.4, np.zeros(k))))
    cases.append((f"spole-inside-offcentre k={k}", make_face(k, 4.0, -np.pi / 2 + 0.1, 0.3, 0.4, np.zeros(k))))
    cases.append((f"npole-just-outside k={k}", make_face(k, 1.0, np.pi / 2 - 0.35, 0.3, 0.4, np.zeros(k))))
    cases.append((f"antimeridian k={k}", make_face(k, np.pi, 0.2, 0.25, 0.3, np.zeros(k))))
    cases.append((f"prime k={k}", make_face(k, 0.0, -0.4, 0.25, 0.3, np.zeros(k))))
    cases.append((f"equator k={k}", make_face(k, 2.0, 0.0, 0.2, 0.0, np.zeros(k))))
    cases.append((f"tiny k={k}", make_face(k, 2.0, 1.0, 1e-4, 0.0, np.zeros(k))))
    cases.append((f"high-lat-bulge k={k}", make_face(k, 2.0, 1.2, 0.25, np.pi / k, np.zeros(k))))
# corner exactly at a pole
cases.append(("corner-at-npole", np.array([[0.0, 0.0, 1.0], lonlat_to_xyz(0.2, 1.2), lonlat_to_xyz(0.9, 1.2)])))
cases.append(("corner-at-spole", np.array([[0.0, 0.0, -1.0], lonlat_to_xyz(0.9, -1.2), lonlat_to_xyz(0.2, -1.2)])))
cases.append(("corner-at-npole-quad", np.array([[0.0, 0.0, 1.0], lonlat_to_xyz(6.1, 1.3), lonlat_to_xyz(0.0, 1.1), lonlat_to_xyz(0.3, 1.3)])))
# pole on an edge
cases.append(("npole-on-edge", np.array([lonlat_to_xyz(0.5, 1.3), lonlat_to_xyz(0.5 + np.pi, 1.3), lonlat_to_xyz(0.5 + np.pi / 2, 1.0)])))
# lat-lon rectangle
ll_rect = np.array([lonlat_to_xyz(0.2, 0.5), lonlat_to_xyz(0.7, 0.5), lonlat_to_xyz(0.7, 0.9), lonlat_to_xyz(0.2, 0.9)])
cases.append(("latlon-rect", ll_rect))
cases.append(("latlon-rect-south", np.array([lonlat_to_xyz(6.0, -0.9), lonlat_to_xyz(0.4, -0.9), lonlat_to_xyz(0.4, -0.5), lonlat_to_xyz(6.0, -0.5)])))

for name, xyz in cases:
    for pad in (0, 2):
        cart, llr = face_arrays(xyz, pad)
        c0, l0 = cart.copy(), llr.copy()
        run(f"face {name} pad={pad}", G._populate_face_latlon_bound, cart, llr)
        if not (np.array_equal(c0, cart) and np.array_equal(l0, llr)):
            print("   INPUT MUTATED")
    cart, llr = face_arrays(xyz, 0)
    run(f"face {name} latlonface", G._populate_face_latlon_bound, cart, llr, is_latlonface=True)
    run(f"face {name} latlonface-pos", G._populate_face_latlon_bound, cart, llr, True)
    k = len(xyz)
    gl = [bool(i % 2) for i in range(k)]
    run(f"face {name} GCAlist", G._populate_face_latlon_bound, cart, llr, is_GCA_list=gl)
    run(f"face {name} GCAlist-np", G._populate_face_latlon_bound, cart, llr, is_latlonface=True, is_GCA_list=np.array([not g for g in gl]))
    run(f"face {name} GCAlist-short", G._populate_face_latlon_bound, cart, llr, is_GCA_list=gl[:1])

# degenerate / inadmissible: exceptions must be the same too
cart, llr = face_arrays(cases[0][1], 0)
run("face all-fill", G._populate_face_latlon_bound, np.full((3, 2, 3), F, dtype=np.float64), np.full((3, 2, 2), F, dtype=np.float64))
run("face zero-edges", G._populate_face_latlon_bound, cart[:0], llr[:0])
run("face mismatched", G._populate_face_latlon_bound, cart, llr[:2])
anti = np.array([lonlat_to_xyz(0.0, 0.0), lonlat_to_xyz(np.pi, 0.0), lonlat_to_xyz(1.0, 1.0)])
run("face antipodal-edge", G._populate_face_latlon_bound, *face_arrays(anti, 0))


# --------------------------------------------------------------------------
# 4. Grid.bounds on a mixed-size mesh (fill values in the connectivity)
# --------------------------------------------------------------------------
print("== Grid.bounds")
import uxarray as ux

node_xyz = []
conn = []
maxk = 8
for name, xyz in cases:
    if "edge" in name and "pole" in name:
        continue
    start = len(node_xyz)
    node_xyz.extend(list(xyz))
    row = list(range(start, start + len(xyz))) + [F] * (maxk - len(xyz))
    conn.append(row)
node_xyz = np.array(node_xyz)
conn = np.array(conn, dtype=INT_DTYPE)
node_lon = np.rad2deg(np.arctan2(node_xyz[:, 1], node_xyz[:, 0]))
node_lat = np.rad2deg(np.arcsin(np.clip(node_xyz[:, 2], -1, 1)))


def grid_bounds(**kw):
    g = ux.Grid.from_topology(node_lon=node_lon, node_lat=node_lat, face_node_connectivity=conn, fill_value=F)
    if kw:
        b = G._populate_bounds(g, return_array=True, **kw)
    else:
        b = g.bounds
        assert g.bounds is not None and "bounds" in g._ds
        print("cached-identical", np.array_equal(g.bounds.values, b.values), g.bounds.dims, sorted(k for k in b.attrs if "interval" not in k))
    return b.values


b = run("grid.bounds", grid_bounds)
if b is not None:
    for i, row in enumerate(b):
        print("  face", i, dig(row), repr(row).replace("\n", " "))
b = run("grid.bounds latlonface", grid_bounds, is_latlonface=True)
if b is not None:
    for i, row in enumerate(b):
        print("  face", i, dig(row))
gl = [[bool((i + j) % 2) for j in range(maxk)] for i in range(len(conn))]
b = run("grid.bounds GCAlist", grid_bounds, is_face_GCA_list=gl)
if b is not None:
    for i, row in enumerate(b):
        print("  face", i, dig(row))

for path in ("test/meshfiles/ugrid/outCSne30/outCSne30.ug", "test/meshfiles/ugrid/quad-hexagon/grid.nc", "test/meshfiles/mpas/QU/mesh.QU.1920km.151026.nc"):
    if os.path.exists(path):
        def fb(p=path):
            g = ux.open_grid(p)
            return g.bounds.values[:200]
        run(f"file {path}", fb)
    else:
        print("file missing", path)
