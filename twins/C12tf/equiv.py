import sys, os; sys.path.insert(0, os.getcwd())
import hashlib
import warnings
import numpy as np
import uxarray as ux
assert os.path.abspath(ux.__file__).startswith(os.path.abspath(os.getcwd()) + os.sep), ux.__file__
from uxarray.grid.neighbors import _prepare_xy_for_query, _prepare_xyz_for_query

warnings.simplefilter("ignore")
np.set_printoptions(precision=17, linewidth=200)

MESH = os.path.join(os.getcwd(), "test", "meshfiles")
KINDS = ["nodes", "edge centers", "face centers"]
DIM = {"nodes": "n_node", "edge centers": "n_edge", "face centers": "n_face"}


def digest(a):
    a = np.ascontiguousarray(np.asarray(a))
    return f"{a.dtype} {a.shape} {hashlib.sha256(a.tobytes()).hexdigest()[:16]}"


def ragged(x):
    if isinstance(x, (list, tuple)) or (isinstance(x, np.ndarray) and x.dtype == object):
        return [ragged(v) for v in x]
    return digest(x)


def attempt(tag, fn):
    try:
        print(tag, "->", fn())
    except Exception as e:
        print(tag, "-> EXC", type(e).__name__, str(e)[:200])


# ---- the helpers on their own ------------------------------------------------------------------
POINT_INPUTS = {
    "list1_2": [10.0, 20.0],
    "tuple1_2": (10.0, 20.0),
    "list1_3": [1.0, 0.0, 0.0],
    "arr1_2": np.array([10.0, 20.0]),
    "arr1_3": np.array([0.0, 0.6, 0.8]),
    "arr_n2": np.array([[0.0, 0.0], [180.0, 90.0], [-180.0, -90.0], [359.0, 45.0]]),
    "arr_n3": np.array([[1.0, 0.0, 0.0], [0.0, 1.0, 0.0], [0.0, 0.0, -1.0]]),
    "int_n2": np.array([[1, 2], [3, 4]]),
    "int_n3": np.array([[1, 0, 0], [0, 0, 1]]),
    "f32_n2": np.array([[1.5, 2.5], [3.5, 4.5]], dtype=np.float32),
    "fortran_n3": np.asfortranarray(np.arange(12.0).reshape(4, 3)),
    "view_n2": np.arange(12.0).reshape(4, 3)[:, :2],
    "arr1_1": np.array([5.0]),
    "arr1_4": np.array([1.0, 2.0, 3.0, 4.0]),
    "arr_n1": np.ones((3, 1)),
    "arr_n4": np.ones((3, 4)),
    "empty1": np.array([]),
    "empty_02": np.empty((0, 2)),
    "empty_03": np.empty((0, 3)),
    "scalar": 3.0,
    "arr0d": np.array(3.0),
    "arr3d_2": np.ones((2, 2, 2)),
    "arr3d_3": np.ones((2, 3, 2)),
    "arr3d_x2": np.ones((2, 2, 5)),
    "nested_list": [[1.0, 2.0], [3.0, 4.0]],
    "ragged": [[1.0, 2.0], [3.0]],
    "nan_n2": np.array([[np.nan, 1.0]]),
    "str": "ab",
    "none": None,
}


def helper_runs():
    for name, pts in POINT_INPUTS.items():
        for use_radians in [False, True]:
            for metric in ["haversine", "minkowski", "euclidean", None]:
                def run():
                    r = _prepare_xy_for_query(pts, use_radians, metric)
                    return (digest(r), r.flags["C_CONTIGUOUS"], r.flags["OWNDATA"], r is pts,
                            isinstance(pts, np.ndarray) and np.shares_memory(r, pts), repr(r) if r.size <= 8 else "")
                attempt(f"xy {name} rad={use_radians} metric={metric}", run)
                def run_kw():
                    r = _prepare_xy_for_query(pts, use_radians, distance_metric=metric)
                    return digest(r)
                attempt(f"xy-kw {name} rad={use_radians} metric={metric}", run_kw)

        def run3():
            r = _prepare_xyz_for_query(pts)
            return (digest(r), r.flags["C_CONTIGUOUS"], r.flags["OWNDATA"], r is pts,
                    isinstance(pts, np.ndarray) and np.shares_memory(r, pts), repr(r) if r.size <= 9 else "")
        attempt(f"xyz {name}", run3)
    # inputs are never modified
    a = np.array([[10.0, 20.0], [30.0, 40.0]]); b = a.copy()
    _prepare_xy_for_query(a, False, "haversine"); _prepare_xy_for_query(a, True, "minkowski")
    c = np.array([[1.0, 0.0, 0.0]]); d = c.copy()
    _prepare_xyz_for_query(c)
    print("inputs untouched", np.array_equal(a, b), np.array_equal(c, d))


# ---- the trees ---------------------------------------------------------------------------------
def make_grids():
    out = {}
    out["mixed"] = lambda: ux.open_grid(os.path.join(MESH, "exodus", "mixed", "mixed.exo"))
    out["mpas"] = lambda: ux.open_grid(os.path.join(MESH, "mpas", "QU", "mesh.QU.1920km.151026.nc"))
    lon = np.array([0.0, 120.0, -120.0, 10.0])
    lat = np.array([-20.0, -25.0, -15.0, 80.0])
    tet = np.array([[0, 1, 2], [0, 3, 1], [1, 3, 2], [2, 3, 0]])
    out["tet"] = lambda: ux.Grid.from_topology(lon, lat, tet)
    lon2 = np.array([0.0, 10.0, 10.0, 0.0, 20.0, 5.0])
    lat2 = np.array([0.0, 0.0, 10.0, 10.0, 5.0, 20.0])
    fn = np.array([[0, 1, 2, 3], [1, 4, 2, -1], [3, 2, 5, -1]])
    out["patch"] = lambda: ux.Grid.from_topology(lon2, lat2, fn, fill_value=-1)
    return out


QUERY_INPUTS = ["list1_2", "tuple1_2", "list1_3", "arr1_3", "arr_n2", "arr_n3", "int_n2", "int_n3",
                "arr1_4", "arr_n4", "empty_02", "empty_03", "arr0d", "nested_list", "view_n2", "fortran_n3"]


def tree_runs(G):
    for gname in ["tet", "patch", "mixed", "mpas"]:
        grid = G[gname]()
        for kind in KINDS:
            trees = {
                "ball-sph": lambda: grid.get_ball_tree(kind, "spherical", "haversine", True),
                "ball-cart": lambda: grid.get_ball_tree(kind, "cartesian", "minkowski", True),
                "kd-cart": lambda: grid.get_kd_tree(kind, "cartesian", "minkowski", True),
                "kd-sph": lambda: grid.get_kd_tree(kind, "spherical", "minkowski", True),
            }
            for tname, mk in trees.items():
                try:
                    tree = mk()
                except Exception as e:
                    print(gname, kind, tname, "build EXC", type(e).__name__, str(e)[:100])
                    continue
                for iname in QUERY_INPUTS:
                    pts = POINT_INPUTS[iname]
                    for k in [1, 2]:
                        for in_radians in [False, True]:
                            for return_distance in [True, False]:
                                tag = f"{gname} {kind} {tname} query {iname} k={k} rad={in_radians} dist={return_distance}"
                                attempt(tag, lambda: ragged(tree.query(pts, k=k, in_radians=in_radians,
                                                                       return_distance=return_distance))
                                        if return_distance else digest(tree.query(pts, k=k, in_radians=in_radians,
                                                                                  return_distance=False)))
                    for r in [0.0, 15.0]:
                        for in_radians in [False, True]:
                            for return_distance in [False, True]:
                                tag = f"{gname} {kind} {tname} radius {iname} r={r} rad={in_radians} dist={return_distance}"
                                attempt(tag, lambda: ragged(tree.query_radius(pts, r=r, in_radians=in_radians,
                                                                              return_distance=return_distance)))
                    attempt(f"{gname} {kind} {tname} count {iname}",
                            lambda: ragged(tree.query_radius(pts, r=30.0, count_only=True)))


# ---- remapping ---------------------------------------------------------------------------------
def field(grid, kind, lead):
    n = {"nodes": grid.n_node, "edge centers": grid.n_edge, "face centers": grid.n_face}[kind]
    rng = np.random.default_rng(n + 7 * len(lead))
    data = rng.normal(size=tuple(lead) + (n,))
    dims = [f"lead{i}" for i in range(len(lead))] + [DIM[kind]]
    return ux.UxDataArray(data, dims=dims, uxgrid=grid, name=f"v_{DIM[kind]}")


def remaps(G):
    for sname, dname in [("mixed", "mpas"), ("mpas", "patch"), ("tet", "tet"), ("patch", "mixed"), ("mixed", "mixed")]:
        src = G[sname]()
        dest = src if sname == dname else G[dname]()
        for src_kind in KINDS:
            for lead in [(), (2, 3)]:
                da = field(src, src_kind, lead)
                for remap_to in KINDS:
                    for coord_type in ["spherical", "cartesian"]:
                        tag = f"{sname}>{dname} {src_kind}{lead}>{remap_to} {coord_type}"
                        attempt("NN  " + tag, lambda: (lambda r: (r.dims, digest(r.values), r.uxgrid is dest))(
                            da.remap.nearest_neighbor(dest, remap_to, coord_type)))
                        attempt("IDW " + tag, lambda: (lambda r: (r.dims, digest(r.values), r.uxgrid is dest))(
                            da.remap.inverse_distance_weighted(dest, remap_to, coord_type, 2, 3)))
    # subsetting also goes through the trees
    grid = G["mixed"]()
    for element in KINDS:
        attempt(f"subset nn {element}", lambda: (lambda s: (s.n_node, s.n_face, digest(s.node_lon.values)))(
            grid.subset.nearest_neighbor((10.0, 20.0), k=4, element=element)))
        attempt(f"subset circle {element}", lambda: (lambda s: (s.n_node, s.n_face, digest(s.node_lon.values)))(
            grid.subset.bounding_circle((10.0, 20.0), 25.0, element=element)))
        attempt(f"subset nn xyz {element}", lambda: grid.subset.nearest_neighbor((1.0, 0.0, 0.0), k=4, element=element))


helper_runs()
G = make_grids()
tree_runs(G)
remaps(G)
