import sys, os; sys.path.insert(0, os.getcwd())
import warnings, hashlib
warnings.filterwarnings("ignore")
import numpy as np
import xarray as xr
import uxarray as ux
assert os.path.abspath(ux.__file__).startswith(os.path.abspath(os.getcwd()) + os.sep), ux.__file__
from uxarray.constants import INT_FILL_VALUE, INT_DTYPE

np.set_printoptions(threshold=10**6, linewidth=200)


def h(arr):
    a = np.ascontiguousarray(np.asarray(arr))
    return f"{a.dtype}{a.shape}:{hashlib.sha1(a.tobytes()).hexdigest()[:12]}"


def state(g):
    """variables present in the internal dataset + digests of the compared ones"""
    names = sorted(str(k) for k in g._ds.variables)
    dig = {n: h(g._ds[n].values) for n in ("node_lon", "node_lat", "face_node_connectivity") if n in g._ds}
    return f"vars={names} dims={dict(g._ds.sizes)} dig={dig} spec={g.source_grid_spec!r}"


def cmp(tag, x, y):
    out = []
    for name, f in (("eq", lambda: x == y), ("ne", lambda: x != y), ("req", lambda: y == x), ("rne", lambda: y != x),
                    ("deq", lambda: x.__eq__(y) if isinstance(x, ux.Grid) else None),
                    ("dne", lambda: x.__ne__(y) if isinstance(x, ux.Grid) else None)):
        try:
            r = f()
            out.append(f"{name}={r!r}:{type(r).__name__}")
        except Exception as e:  # noqa
            out.append(f"{name}=EXC {type(e).__name__}: {e}")
    print(f"{tag}: " + " ".join(out))


# ---------------------------------------------------------------- synthetic grids
lon = np.array([0.0, 10.0, 10.0, 0.0, 20.0, 20.0, 5.0])
lat = np.array([0.0, 0.0, 10.0, 10.0, 0.0, 10.0, 20.0])
F = INT_FILL_VALUE
conn_mixed = np.array([[0, 1, 2, 3], [1, 4, 5, 2], [3, 2, 6, F]], dtype=INT_DTYPE)


def mk(lon=lon, lat=lat, conn=conn_mixed, **kw):
    return ux.Grid.from_topology(node_lon=np.array(lon, copy=True), node_lat=np.array(lat, copy=True),
                                 face_node_connectivity=np.array(conn, copy=True), fill_value=F, **kw)


base = mk()
print("base", state(base))
cmp("reflexive", base, base)
cmp("same-data", base, mk())
cmp("copy", base, base.copy())
cmp("copy-of-copy", base.copy(), base.copy())

for i in range(len(lon)):
    l2 = lon.copy(); l2[i] += 1e-9
    cmp(f"lon[{i}]+1e-9", base, mk(lon=l2))
    l3 = lat.copy(); l3[i] -= 1e-9
    cmp(f"lat[{i}]-1e-9", base, mk(lat=l3))
# lon change only vs lat change only vs both
l2 = lon.copy(); l2[3] = 1.0
l3 = lat.copy(); l3[3] = 11.0
cmp("lon-only", base, mk(lon=l2))
cmp("lat-only", base, mk(lat=l3))
cmp("lon-and-lat", base, mk(lon=l2, lat=l3))
cmp("lon-only vs lat-only", mk(lon=l2), mk(lat=l3))

for (r, c) in [(0, 0), (0, 3), (1, 2), (2, 0), (2, 2)]:
    c2 = conn_mixed.copy(); c2[r, c] = (c2[r, c] + 1) % 7
    cmp(f"conn[{r},{c}] changed", base, mk(conn=c2))
c2 = conn_mixed.copy(); c2[2, 3] = 0          # fill value -> real node
cmp("fill->node", base, mk(conn=c2))
c2 = conn_mixed.copy(); c2[0, 3] = F          # real node -> fill value
cmp("node->fill", base, mk(conn=c2))
# swapped rows (same set of faces, other order)
cmp("rows swapped", base, mk(conn=conn_mixed[[1, 0, 2]]))
# fewer faces / fewer columns / extra node
cmp("one face less", base, mk(conn=conn_mixed[:2]))
cmp("triangles only", mk(conn=conn_mixed[2:, :3]), mk(conn=conn_mixed[2:, :]))
cmp("extra node", base, mk(lon=np.append(lon, 30.0), lat=np.append(lat, 30.0)))
cmp("one node less", mk(lon=lon[:6], lat=lat[:6], conn=conn_mixed[:2]), mk(conn=conn_mixed[:2]))
# NaN coordinate (xarray .equals treats NaN==NaN)
ln = lon.copy(); ln[6] = np.nan
cmp("nan vs nan", mk(lon=ln), mk(lon=ln))
cmp("nan vs number", mk(lon=ln), base)
# longitudes are wrapped to [-180,180]: 190 and -170 coincide after construction
la = lon.copy(); la[4] = 190.0
lb = lon.copy(); lb[4] = -170.0
cmp("190 vs -170", mk(lon=la), mk(lon=lb))
# float32 coordinates vs float64
cmp("f32 vs f64 lon", mk(lon=lon.astype(np.float32)), base)
# different dtype of the connectivity with the same numbers
cmp("int32 conn", base, ux.Grid.from_topology(node_lon=lon, node_lat=lat,
                                              face_node_connectivity=conn_mixed[:2].astype(np.int32)))

# ---------------------------------------------------------------- source_grid_spec
ds = base._ds[["node_lon", "node_lat", "face_node_connectivity"]]
gA = ux.Grid(ds, source_grid_spec="UGRID")
gB = ux.Grid(ds, source_grid_spec="MPAS")
gN = ux.Grid(ds)                       # source_grid_spec None
gN2 = ux.Grid(ds, source_grid_spec=None)
gC = ux.Grid.from_dataset(ds, source_grid_spec="UGRID")
cmp("spec UGRID vs MPAS", gA, gB)
cmp("spec UGRID vs None", gA, gN)
cmp("spec None vs None", gN, gN2)
cmp("spec UGRID vs UGRID(from_dataset)", gA, gC)
cmp("spec UGRID vs from_topology", gA, base)
print("specs", repr(base.source_grid_spec), repr(gA.source_grid_spec), repr(gN.source_grid_spec), repr(gC.source_grid_spec))

# ---------------------------------------------------------------- non-Grid operands
for other in (None, 1, "grid", base._ds, base.node_lon, [base], (base,), np.float64(1.0), object()):
    out = []
    for name, f in (("eq", lambda: base == other), ("ne", lambda: base != other),
                    ("deq", lambda: base.__eq__(other)), ("dne", lambda: base.__ne__(other))):
        try:
            r = f()
            out.append(f"{name}={r!r}:{type(r).__name__}")
        except Exception as e:  # noqa
            out.append(f"{name}=EXC {type(e).__name__}")
    print(f"non-grid {type(other).__name__}: " + " ".join(out))
r = base == np.array([1, 2])
print("ndarray operand eq", type(r).__name__, repr(r))


class SubGrid(ux.Grid):
    pass


sub = SubGrid(ds, source_grid_spec="UGRID")
cmp("subclass", gA, sub)

# ---------------------------------------------------------------- lazily populated lon/lat (cartesian-only dataset)
x = np.cos(np.deg2rad(lat)) * np.cos(np.deg2rad(lon))
y = np.cos(np.deg2rad(lat)) * np.sin(np.deg2rad(lon))
z = np.sin(np.deg2rad(lat))


def cart(xx=x, yy=y, zz=z, conn=conn_mixed):
    d = xr.Dataset({"node_x": (("n_node",), np.array(xx)), "node_y": (("n_node",), np.array(yy)),
                    "node_z": (("n_node",), np.array(zz)),
                    "face_node_connectivity": (("n_face", "n_max_face_nodes"), np.array(conn),
                                               {"_FillValue": F, "start_index": 0, "cf_role": "face_node_connectivity"})})
    return ux.Grid(d, source_grid_spec="UGRID")


try:
    c1, c2_ = cart(), cart()
    print("cart before", state(c1))
    cmp("cart vs cart", c1, c2_)
    print("cart after ", state(c1))
    print("cart after2", state(c2_))
    c3 = cart()
    c4 = ux.Grid(c3._ds, source_grid_spec="MPAS")
    print("c3/c4 before", state(c3), "|", state(c4))
    cmp("cart spec mismatch (no population expected)", c3, c4)
    print("c3/c4 after ", state(c3), "|", state(c4))
    c5 = cart()
    cmp("cart vs non-grid", c5, 5)
    print("c5 after", state(c5))
    c6 = cart(); c7 = cart(xx=x[::-1].copy())
    cmp("cart differing x", c6, c7)
    print("c6/c7 after", state(c6), "|", state(c7))
except Exception as e:  # noqa
    print("cart section EXC", type(e).__name__, e)

# ---------------------------------------------------------------- single face, 1-d connectivity
try:
    d1 = xr.Dataset({"node_lon": (("n_node",), lon[:4].copy()), "node_lat": (("n_node",), lat[:4].copy()),
                     "face_node_connectivity": (("n_max_face_nodes",), np.array([0, 1, 2, 3], dtype=INT_DTYPE),
                                                {"_FillValue": F, "start_index": 0, "cf_role": "face_node_connectivity"})})
    s1 = ux.Grid(d1, source_grid_spec="UGRID")
    s2 = ux.Grid(d1, source_grid_spec="UGRID")
    print("1d before", state(s1), s1._ds["face_node_connectivity"].dims)
    cmp("1d vs 1d", s1, s2)
    print("1d after ", state(s1), s1._ds["face_node_connectivity"].dims, dict(s1._ds["face_node_connectivity"].attrs))
    fnc = s1.face_node_connectivity
    print("1d getter", fnc.dims, h(fnc.values), dict(fnc.attrs))
    s3 = mk(lon=lon[:4], lat=lat[:4], conn=np.array([[0, 1, 2, 3]], dtype=INT_DTYPE))
    cmp("1d vs 2d single face", s1, s3)
    s4 = ux.Grid(d1, source_grid_spec="UGRID")
    cmp("fresh 1d vs promoted", s4, s1)
    cp = s4.copy()
    cmp("1d copy", s4, cp)
except Exception as e:  # noqa
    print("1d section EXC", type(e).__name__, e)

# ---------------------------------------------------------------- getters / copy semantics
g = mk()
a1, a2 = g.node_lon, g.node_lat
print("getter lon", a1.dims, h(a1.values), sorted(a1.attrs), "lat", a2.dims, h(a2.values), sorted(a2.attrs))
f1 = g.face_node_connectivity
print("getter fnc", f1.dims, h(f1.values), sorted(f1.attrs))
print("getter shares memory", np.shares_memory(g.node_lon.values, g._ds["node_lon"].values),
      np.shares_memory(g.face_node_connectivity.values, g._ds["face_node_connectivity"].values))
cp = g.copy()
print("copy type", type(cp).__name__, "ds is", cp._ds is g._ds, "shares lon", np.shares_memory(cp.node_lon.values, g.node_lon.values),
      "shares fnc", np.shares_memory(cp.face_node_connectivity.values, g.face_node_connectivity.values),
      "spec", repr(cp.source_grid_spec), "dims_dict is", cp._source_dims_dict is g._source_dims_dict, cp._source_dims_dict)
cp.node_lon.values[0] = 3.25
cmp("mutated copy", g, cp)
print("orig untouched", h(g.node_lon.values), state(cp))
_ = g.face_areas if hasattr(g, "face_areas") else None
_ = g.edge_node_connectivity
cp2 = g.copy()
print("copy keeps derived", sorted(str(k) for k in cp2._ds.variables) == sorted(str(k) for k in g._ds.variables))
cmp("copy after derived", g, cp2)
# setters
g2 = mk()
g2.node_lat = xr.DataArray(lat + 0.5, dims=["n_node"])
cmp("after node_lat setter", g2, base)
g2.node_lat = xr.DataArray(lat.copy(), dims=["n_node"])
cmp("after node_lat restored (attrs differ)", g2, base)
try:
    g2.node_lon = lon
except AssertionError:
    print("setter assertion ok")

# ---------------------------------------------------------------- file grids
files = {
    "ne8-exo": "test/meshfiles/exodus/outCSne8/outCSne8.g",
    "ne8-scrip": "test/meshfiles/scrip/outCSne8/outCSne8.nc",
    "mixed-exo": "test/meshfiles/exodus/mixed/mixed.exo",
    "mpas": "test/meshfiles/mpas/QU/mesh.QU.1920km.151026.nc",
    "geoflow": "test/meshfiles/ugrid/geoflow-small/grid.nc",
}
grids = {}
for k, p in files.items():
    try:
        grids[k] = ux.open_grid(p)
    except Exception as e:  # noqa
        print("open failed", k, type(e).__name__)
keys = sorted(grids)
for k in keys:
    print(k, state(grids[k]))
for i in keys:
    print("matrix", i, [(grids[i] == grids[j], grids[i] != grids[j]) for j in keys])
for k in keys:
    g = grids[k]
    again = ux.open_grid(files[k])
    cmp(f"{k} reopened", g, again)
    cmp(f"{k} copy", g, g.copy())
    # one connectivity entry changed in a copy
    cp = g.copy()
    v = cp._ds["face_node_connectivity"].values
    v[-1, 0] = v[-1, 1]
    cmp(f"{k} conn entry", g, cp)
    cp = g.copy(); cp._ds["node_lon"].values[-1] += 1e-7
    cmp(f"{k} lon entry", g, cp)
    cp = g.copy(); cp._ds["node_lat"].values[0] += 1e-7
    cmp(f"{k} lat entry", g, cp)
if "mpas" in grids:
    dual = ux.open_grid(files["mpas"], use_dual=True)
    cmp("mpas primal vs dual", grids["mpas"], dual)
    sub = grids["mpas"].isel(n_face=[0, 1, 2])
    cmp("mpas vs subset", grids["mpas"], sub)
    cmp("subset vs same subset", sub, grids["mpas"].isel(n_face=[0, 1, 2]))
    cmp("subset vs other subset", sub, grids["mpas"].isel(n_face=[0, 1, 3]))
print("done")
