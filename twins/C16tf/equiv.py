import sys, os; sys.path.insert(0, os.getcwd())
import hashlib, warnings
warnings.filterwarnings("ignore")
import numpy as np, xarray as xr
import uxarray as ux
assert os.path.abspath(ux.__file__).startswith(os.path.abspath(os.getcwd()) + os.sep), ux.__file__
import uxarray.grid.grid as grid_mod
from uxarray.constants import INT_FILL_VALUE

NAMES = ("edge_node_distances", "edge_face_distances")


def dig(a):
    a = np.asarray(a)
    return f"{a.dtype} {a.shape} {hashlib.sha256(np.ascontiguousarray(a).tobytes()).hexdigest()[:16]}"


def geodesic(lon, lat, pairs):
    """independent haversine reference, only printed as a rounded max deviation"""
    lo, la = np.deg2rad(lon), np.deg2rad(lat)
    a, b = pairs[:, 0], pairs[:, 1]
    h = np.sin((la[a] - la[b]) / 2) ** 2 + np.cos(la[a]) * np.cos(la[b]) * np.sin((lo[a] - lo[b]) / 2) ** 2
    return 2 * np.arcsin(np.sqrt(h))


def make_grids():
    lon = np.array([0.0, 10, 20, 0, 10, 20, 5, 30])
    lat = np.array([0.0, 0, 0, 10, 10, 10, 20, 5])
    fnc = np.array([[0, 1, 4, 3], [1, 2, 5, 4], [3, 4, 6, -1], [2, 7, 5, -1]])
    yield "patch tri+quad", lambda: ux.Grid.from_topology(lon, lat, fnc, fill_value=-1)
    lon2 = np.array([0.0, 90, 180, 270, 0, 0])
    lat2 = np.array([0.0, 0, 0, 0, 90, -90])
    fnc2 = np.array([[0, 1, 4], [1, 2, 4], [2, 3, 4], [3, 0, 4], [1, 0, 5], [2, 1, 5], [3, 2, 5], [0, 3, 5]])
    yield "octahedron", lambda: ux.Grid.from_topology(lon2, lat2, fnc2)
    yield "single triangle", lambda: ux.Grid.from_face_vertices([[[10.0, 10.0], [20.0, 10.0], [15.0, 25.0]]], latlon=True)
    lon3 = np.array([0.0, 10, 13, 5, -3, 20, 25, 16])
    lat3 = np.array([0.0, 0, 8, 14, 8, 0, 10, 16])
    fnc3 = np.array([[0, 1, 2, 3, 4], [1, 5, 2, -1, -1], [2, 5, 6, 7, -1]])
    yield "pentagon+tri+quad", lambda: ux.Grid.from_topology(lon3, lat3, fnc3, fill_value=-1)
    yield "quad-hexagon file", lambda: ux.open_grid("test/meshfiles/ugrid/quad-hexagon/grid.nc")
    yield "geoflow", lambda: ux.open_grid("test/meshfiles/ugrid/geoflow-small/grid.nc")
    yield "CSne30", lambda: ux.open_grid("test/meshfiles/ugrid/outCSne30/outCSne30.ug")
    yield "mpas primal", lambda: ux.open_grid("test/meshfiles/mpas/QU/mesh.QU.1920km.151026.nc")
    yield "mpas dual", lambda: ux.open_grid("test/meshfiles/mpas/QU/mesh.QU.1920km.151026.nc", use_dual=True)


# count how often the constructors run (looked up through the module at call time)
calls = {n: 0 for n in NAMES}
orig = {n: getattr(grid_mod, "_populate_" + n) for n in NAMES}


def counting(name):
    def wrapper(grid):
        calls[name] += 1
        return orig[name](grid)
    return wrapper


for n in NAMES:
    setattr(grid_mod, "_populate_" + n, counting(n))

for label, make in make_grids():
    g = make()
    print("==", label, g.n_node, g.n_face, g.n_edge)
    for n in calls:
        calls[n] = 0
    supplied = {n: n in g._ds for n in NAMES}
    print("   supplied by source:", supplied)
    for n in NAMES:
        first = getattr(g, n)
        second = getattr(g, n)
        print("  ", n, type(first).__name__, first.dims, first.name, sorted(first.attrs.items()))
        print("     ", dig(first.values), "in _ds now:", n in g._ds, "populate calls:", calls[n],
              "same buffer on re-access:", first.values is second.values,
              "is _ds entry:", first.values is g._ds[n].values)
    print("   keys in _ds:", [k for k in g._ds.variables if "distances" in k])
    # geometry, against an independent formula (source-supplied tables are on another radius: ratio only)
    en = g.edge_node_connectivity.values
    ref = geodesic(g.node_lon.values, g.node_lat.values, en)
    if not supplied["edge_node_distances"]:
        print("   max |end - haversine| < 1e-9:", bool(np.max(np.abs(g.edge_node_distances.values - ref)) < 1e-9))
    ef = g.edge_face_connectivity.values
    m = ef[:, 1] != INT_FILL_VALUE
    if not supplied["edge_face_distances"]:
        ref = geodesic(g.face_lon.values, g.face_lat.values, ef[m])
        d = g.edge_face_distances.values
        print("   boundary edges:", int((~m).sum()), "all zero there:", bool((d[~m] == 0).all()),
              "max |efd - haversine| < 1e-9:", bool(ref.size == 0 or np.max(np.abs(d[m] - ref)) < 1e-9))

    # setter: only DataArrays are accepted, and they replace the cached table without recomputation
    for n in NAMES:
        for bad in (np.zeros(g.n_edge), [0.0] * g.n_edge, None, xr.Dataset()):
            try:
                setattr(g, n, bad)
                print("   set", n, type(bad).__name__, "accepted")
            except Exception as e:
                print("   set", n, type(bad).__name__, "->", type(e).__name__, repr(str(e)))
        print("   after rejected sets unchanged:", dig(getattr(g, n).values))
        mine = xr.DataArray(np.arange(g.n_edge, dtype=np.float32) + 0.5, dims=["n_edge"], attrs={"who": "user"})
        before = calls[n]
        setattr(g, n, mine)
        got = getattr(g, n)
        print("   set", n, "DataArray ->", dig(got.values), got.dims, got.name, sorted(got.attrs.items()),
              "populate calls added:", calls[n] - before,
              "shares memory with given:", np.shares_memory(got.values, mine.values))
    # the gradient reads whatever table is cached
    v = ux.UxDataArray(np.random.default_rng(1).normal(size=(2, g.n_face)), dims=["t", "n_face"], uxgrid=g, name="v")
    print("   grad with user table:", dig(v.gradient().values))

    # a fresh grid where the setter is used BEFORE any access: nothing is ever computed
    g2 = make()
    for n in calls:
        calls[n] = 0
    for n in NAMES:
        setattr(g2, n, xr.DataArray(np.full(g2.n_edge, 2.0), dims=["n_edge"]))
        print("   pre-set", n, dig(getattr(g2, n).values), "populate calls:", calls[n])
    # wrong-length DataArray: whatever xarray says
    g3 = make()
    for n in NAMES:
        try:
            setattr(g3, n, xr.DataArray(np.zeros(g3.n_edge + 1), dims=["n_edge"]))
            print("   wrong length set", n, "accepted; n_edge now", g3._ds.sizes["n_edge"])
        except Exception as e:
            print("   wrong length set", n, "->", type(e).__name__, str(e)[:90])

    # subset: tables of the sub-grid
    if g.n_face >= 3:
        g4 = make()
        _ = g4.edge_node_distances, g4.edge_face_distances
        for n in calls:
            calls[n] = 0
        sub = g4.isel(n_face=[0, 1, 2])
        print("   subset carries:", {n: n in sub._ds for n in NAMES}, sub.n_node, sub.n_face, sub.n_edge)
        for n in NAMES:
            print("   subset", n, dig(getattr(sub, n).values), "populate calls:", calls[n])

# deleting the cached variable makes the next access recompute it
g = ux.Grid.from_topology(np.array([0.0, 10, 10, 0]), np.array([0.0, 0, 10, 10]), np.array([[0, 1, 2, 3]]))
for n in calls:
    calls[n] = 0
for n in NAMES:
    a = getattr(g, n).values.copy()
    g._ds = g._ds.drop_vars(n)
    b = getattr(g, n).values
    print("recompute after drop", n, np.array_equal(a, b), "populate calls:", calls[n], repr(b))

# the properties are still plain data descriptors on the class
for n in NAMES:
    p = getattr(ux.Grid, n)
    print(n, type(p).__name__, p.fset is not None, p.fdel is None, p.fget.__doc__.split()[0], p.fset.__doc__)
try:
    del g.edge_node_distances
except Exception as e:
    print("del ->", type(e).__name__)
