import sys, os; sys.path.insert(0, os.getcwd())
import hashlib
import warnings
import numpy as np
import uxarray as ux
assert os.path.abspath(ux.__file__).startswith(os.path.abspath(os.getcwd()) + os.sep), ux.__file__

warnings.simplefilter("ignore")
np.set_printoptions(precision=17, linewidth=200)

MESH = os.path.join(os.getcwd(), "test", "meshfiles")
KINDS = ["nodes", "edge centers", "face centers"]
DIM = {"nodes": "n_node", "edge centers": "n_edge", "face centers": "n_face"}


def digest(a):
    a = np.ascontiguousarray(np.asarray(a))
    return f"{a.dtype} {a.shape} {hashlib.sha256(a.tobytes()).hexdigest()[:16]}"


def grids():
    out = {}
    out["mixed"] = lambda: ux.open_grid(os.path.join(MESH, "exodus", "mixed", "mixed.exo"))
    out["mpas"] = lambda: ux.open_grid(os.path.join(MESH, "mpas", "QU", "mesh.QU.1920km.151026.nc"))
    out["ne8"] = lambda: ux.open_grid(os.path.join(MESH, "scrip", "outCSne8", "outCSne8.nc"))
    # tetrahedron: n_node == n_face == 4, n_edge == 6
    lon = np.array([0.0, 120.0, -120.0, 10.0])
    lat = np.array([-20.0, -25.0, -15.0, 80.0])
    tet = np.array([[0, 1, 2], [0, 3, 1], [1, 3, 2], [2, 3, 0]])
    out["tet"] = lambda: ux.Grid.from_topology(lon, lat, tet)
    # mixed triangle/quad patch with fill values
    lon2 = np.array([0.0, 10.0, 10.0, 0.0, 20.0, 5.0])
    lat2 = np.array([0.0, 0.0, 10.0, 10.0, 5.0, 20.0])
    fn = np.array([[0, 1, 2, 3], [1, 4, 2, -1], [3, 2, 5, -1]])
    out["patch"] = lambda: ux.Grid.from_topology(lon2, lat2, fn, fill_value=-1)
    return out


def field(grid, kind, lead):
    n = {"nodes": grid.n_node, "edge centers": grid.n_edge, "face centers": grid.n_face}[kind]
    rng = np.random.default_rng(n + 7 * len(lead))
    data = rng.normal(size=tuple(lead) + (n,))
    dims = [f"lead{i}" for i in range(len(lead))] + [DIM[kind]]
    return ux.UxDataArray(data, dims=dims, uxgrid=grid, name=f"v_{DIM[kind]}")


def show(tag, fn):
    try:
        with warnings.catch_warnings(record=True) as w:
            warnings.simplefilter("always")
            r = fn()
        ws = sorted({f"{x.category.__name__}:{str(x.message)[:70]}" for x in w
                     if "concave" not in str(x.message)})
        print(tag, "->", type(r).__name__, r.dims, r.name, digest(r.values),
              "grid_is_dest=%s" % (r.uxgrid is fn.dest), sorted(map(str, r.coords)), ws)
    except Exception as e:
        print(tag, "-> EXC", type(e).__name__, str(e)[:160])


def main():
    G = grids()
    pairs = [("mixed", "ne8"), ("mpas", "mixed"), ("ne8", "mpas"), ("tet", "patch"),
             ("patch", "tet"), ("mixed", "mixed"), ("tet", "tet")]
    for sname, dname in pairs:
        for src_kind in KINDS:
            for lead in [(), (2,), (2, 3)]:
                for remap_to in KINDS:
                    for coord_type in ["spherical", "cartesian"]:
                        src = G[sname]()
                        dest = src if sname == dname else G[dname]()
                        da = field(src, src_kind, lead)
                        tag = f"{sname}>{dname} {src_kind}{lead}>{remap_to} {coord_type}"
                        f = lambda: da.remap.nearest_neighbor(dest, remap_to, coord_type)
                        f.dest = dest
                        show("NN  " + tag, f)
                        for k, power in [(2, 1), (3, 2), (4, 6)]:
                            g = lambda: da.remap.inverse_distance_weighted(dest, remap_to, coord_type, power, k)
                            g.dest = dest
                            show(f"IDW k={k} p={power} " + tag, g)
    # invalid / boundary arguments
    src, dest = G["mixed"](), G["tet"]()
    da = field(src, "face centers", (2,))
    for remap_to, coord_type in [("bogus", "spherical"), ("nodes", "bogus"), ("bogus", "bogus"),
                                 ("Nodes", "cartesian"), ("edge centres", "cartesian")]:
        f = lambda: da.remap.nearest_neighbor(dest, remap_to, coord_type); f.dest = dest
        show(f"NN bad {remap_to}/{coord_type}", f)
        g = lambda: da.remap.inverse_distance_weighted(dest, remap_to, coord_type); g.dest = dest
        show(f"IDW bad {remap_to}/{coord_type}", g)
    for k in [0, 1, 2, src.n_face, src.n_face + 1, src.n_node, src.n_node + 1]:
        g = lambda: da.remap.inverse_distance_weighted(dest, "nodes", "spherical", 2, k); g.dest = dest
        show(f"IDW k={k}", g)
    # data whose last dim is not a grid dim: falls back on length inference / fails
    odd = ux.UxDataArray(np.arange(float(src.n_node)), dims=["foo"], uxgrid=src, name="odd")
    f = lambda: odd.remap.nearest_neighbor(dest, "nodes"); f.dest = dest
    show("NN odd dim", f)
    g = lambda: odd.remap.inverse_distance_weighted(dest, "nodes"); g.dest = dest
    show("IDW odd dim", g)
    odd2 = ux.UxDataArray(np.arange(5.0), dims=["foo"], uxgrid=src, name="odd2")
    f = lambda: odd2.remap.nearest_neighbor(dest, "nodes"); f.dest = dest
    show("NN odd len", f)
    # dataset wrappers
    uxds = ux.UxDataset({"a": (("t", "n_node"), field(src, "nodes", (2,)).values),
                         "b": (("n_face",), field(src, "face centers", ()).values)}, uxgrid=src)
    for remap_to in KINDS:
        for name, call in [("DS NN", lambda: uxds.remap.nearest_neighbor(dest, remap_to)),
                           ("DS IDW", lambda: uxds.remap.inverse_distance_weighted(dest, remap_to, "cartesian", 3, 3))]:
            try:
                r = call()
                print(name, remap_to, {v: (r[v].dims, digest(r[v].values)) for v in r.data_vars}, r.uxgrid is dest)
            except Exception as e:
                print(name, remap_to, "-> EXC", type(e).__name__, str(e)[:160])


main()
