import sys, os

sys.path.insert(0, os.getcwd())

import hashlib
import warnings

import numpy as np
import xarray as xr

import uxarray as ux
from uxarray.constants import INT_FILL_VALUE

assert os.path.abspath(ux.__file__).startswith(os.path.abspath(os.getcwd()) + os.sep), ux.__file__

warnings.simplefilter("ignore")

MESH = os.path.join(os.getcwd(), "test", "meshfiles")

# variables / attributes of the Exodus export that contain the wall clock
VOLATILE_VARS = {"qa_records"}
VOLATILE_ATTRS = {"title"}


def h(arr):
    arr = np.asarray(arr)
    if arr.dtype.kind in "OU":
        return "obj:" + hashlib.md5(repr(arr.tolist()).encode()).hexdigest()[:12]
    return hashlib.md5(np.ascontiguousarray(arr).tobytes()).hexdigest()[:12]


def attr_digest(attrs):
    out = []
    for k, v in attrs.items():
        if k in VOLATILE_ATTRS:
            continue
        if isinstance(v, np.ndarray):
            out.append((k, "ndarray", str(v.dtype), v.shape, h(v)))
        else:
            out.append((k, type(v).__name__, repr(v)[:80]))
    return out


def ds_digest(ds):
    lines = []
    lines.append("  type=%s dims=%s" % (type(ds).__name__, sorted(ds.sizes.items())))
    lines.append("  coords=%s" % sorted(ds.coords))
    lines.append("  attrs=%s" % attr_digest(ds.attrs))
    for name in ds.variables:
        if name in VOLATILE_VARS:
            lines.append("  var %s (volatile) dims=%s dtype=%s" % (name, ds[name].dims, ds[name].dtype))
            continue
        v = ds[name]
        lines.append(
            "  var %s dims=%s dtype=%s shape=%s hash=%s attrs=%s"
            % (name, v.dims, v.dtype, v.shape, h(v.values), attr_digest(v.attrs))
        )
    return "\n".join(lines)


def grid_state(g):
    """What the grid reports, independent of any exported object."""
    out = []
    for name in sorted(g._ds.variables):
        v = g._ds[name]
        out.append((name, str(v.dtype), v.shape, h(v.values), sorted(v.attrs)))
    return out


def make_grids():
    grids = {}

    # mixed face sizes (triangle, quad, pentagon) with a custom fill value and one-based indices
    lon = np.array([0.0, 10.0, 10.0, 0.0, 20.0, 20.0, 25.0, 179.0, -179.0, 185.0])
    lat = np.array([0.0, 0.0, 10.0, 10.0, 0.0, 10.0, 5.0, 40.0, 40.0, 50.0])
    conn = np.array(
        [[1, 2, 3, 4, -9], [2, 5, 6, 3, -9], [5, 7, 6, -9, -9], [8, 9, 10, -9, -9]]
    )
    grids["topo_mixed_fill"] = ux.Grid.from_topology(
        lon, lat, conn, fill_value=-9, start_index=1
    )

    # no fill value, lists as input
    grids["topo_lists_nofill"] = ux.Grid.from_topology(
        [0.0, 10.0, 10.0, 0.0, 20.0, 20.0],
        [0.0, 0.0, 10.0, 10.0, 0.0, 10.0],
        [[0, 1, 2, 3], [1, 4, 5, 2]],
    )

    # padding by INT_FILL_VALUE already
    conn2 = np.array([[0, 1, 2, 3], [1, 4, 2, INT_FILL_VALUE]])
    grids["topo_intfill"] = ux.Grid.from_topology(
        lon[:5], lat[:5], conn2, fill_value=INT_FILL_VALUE
    )

    # face vertices, Cartesian-free lat/lon input
    fv = [
        [[10.0, 10.0], [20.0, 10.0], [20.0, 20.0], [10.0, 20.0]],
        [[20.0, 10.0], [30.0, 10.0], [30.0, 20.0], [20.0, 20.0]],
    ]
    grids["face_vertices"] = ux.Grid.from_face_vertices(fv, latlon=True)

    grids["ugrid_quad_hexagon"] = ux.open_grid(
        os.path.join(MESH, "ugrid", "quad-hexagon", "grid.nc")
    )
    grids["ugrid_geoflow"] = ux.open_grid(
        os.path.join(MESH, "ugrid", "geoflow-small", "grid.nc")
    )
    grids["exodus_mixed"] = ux.open_grid(os.path.join(MESH, "exodus", "mixed", "mixed.exo"))
    grids["scrip_ne8"] = ux.open_grid(os.path.join(MESH, "scrip", "outCSne8", "outCSne8.nc"))
    grids["mpas_primal"] = ux.open_grid(
        os.path.join(MESH, "mpas", "QU", "mesh.QU.1920km.151026.nc")
    )
    return grids


def call(label, fn):
    try:
        res = fn()
    except Exception as e:  # noqa
        print("%s -> EXC %s %r" % (label, type(e).__name__, e.args))
        return None
    return res


def shares(ds, g):
    """Names of exported variables whose memory overlaps a variable of the grid."""
    out = []
    for name in ds.variables:
        a = ds[name].values
        if not isinstance(a, np.ndarray) or a.dtype.kind in "OU":
            continue
        for gname in g._ds.variables:
            b = g._ds[gname].values
            if isinstance(b, np.ndarray) and np.shares_memory(a, b):
                out.append((name, gname))
    return out


def scribble(ds):
    """In-place edits of an exported dataset, as a caller might do."""
    ds.attrs["scribbled"] = True
    for name in list(ds.variables):
        if name in VOLATILE_VARS:
            continue
        v = ds[name]
        v.attrs["touched"] = 1
        vals = v.values
        if isinstance(vals, np.ndarray) and vals.dtype.kind in "if" and vals.size and vals.flags.writeable:
            vals[...] = 7


def main():
    grids = make_grids()

    for gname, g in grids.items():
        print("=" * 20, gname, "spec=%r" % g.source_grid_spec)
        before_vars = sorted(g._ds.variables)
        print("vars before:", before_vars)

        for fmt in ["ugrid", "exodus", "scrip"]:
            state0 = grid_state(g)
            ds = call("to_xarray(%r)" % fmt, lambda: g.to_xarray(fmt))
            if ds is None:
                continue
            print("to_xarray(%r):" % fmt)
            print(ds_digest(ds))
            print("  is grid._ds:", ds is g._ds, " shares:", shares(ds, g))
            state1 = grid_state(g)
            scribble(ds)
            state2 = grid_state(g)
            print("  grid unchanged by caller edits:", state1 == state2,
                  " new grid vars after export:", sorted(set(n for n, *_ in state1) - set(n for n, *_ in state0)))
            # a second export is not affected by the edits of the first
            ds_b = call("to_xarray(%r) again" % fmt, lambda: g.to_xarray(fmt))
            print("  second export:")
            print(ds_digest(ds_b))
            print("  distinct objects:", ds_b is not ds)

        for gt in ["UGRID", "Exodus", "SCRIP"]:
            with warnings.catch_warnings(record=True) as w:
                warnings.simplefilter("always")
                ds = call("encode_as(%r)" % gt, lambda: g.encode_as(gt))
                print("encode_as(%r) warnings:" % gt, [(x.category.__name__, str(x.message)[:60]) for x in w][:1])
            if ds is None:
                continue
            print(ds_digest(ds))
            print("  is grid._ds:", ds is g._ds, " shares:", shares(ds, g))
            s1 = grid_state(g)
            scribble(ds)
            print("  grid unchanged by caller edits:", s1 == grid_state(g))

        print("vars after:", sorted(g._ds.variables))

    # unsupported names: exception type, args, and whether anything was derived on the grid
    g = ux.Grid.from_topology(
        [0.0, 10.0, 10.0, 0.0], [0.0, 0.0, 10.0, 10.0], [[0, 1, 2, 3]]
    )
    v0 = sorted(g._ds.variables)
    for bad in ["UGRID", "Ugrid", "Exodus", "SCRIP", "Scrip", "esmf", "", None, 3, ("ugrid",)]:
        call("to_xarray(%r)" % (bad,), lambda: g.to_xarray(bad))
    for bad in ["ugrid", "exodus", "scrip", "Ugrid", "EXODUS", "Scrip", "", None, 3, ("UGRID",)]:
        with warnings.catch_warnings(record=True) as w:
            warnings.simplefilter("always")
            call("encode_as(%r)" % (bad,), lambda: g.encode_as(bad))
            print("   warned:", [x.category.__name__ for x in w])
    print("grid vars untouched by failed exports:", sorted(g._ds.variables) == v0)
    # default argument
    print("default to_xarray:")
    print(ds_digest(g.to_xarray()))

    # Cartesian-only grid: the UGRID export derives node_lon/node_lat first
    x = np.array([1.0, 0.0, 0.0, 0.70710678])
    y = np.array([0.0, 1.0, 0.0, 0.70710678])
    z = np.array([0.0, 0.0, 1.0, 0.0])
    ds_in = xr.Dataset(
        {
            "node_x": (("n_node",), x),
            "node_y": (("n_node",), y),
            "node_z": (("n_node",), z),
            "face_node_connectivity": (
                ("n_face", "n_max_face_nodes"),
                np.array([[0, 3, 2], [3, 1, 2]]),
            ),
        }
    )
    gc = ux.Grid(ds_in, source_grid_spec="custom")
    print("cartesian-only vars before:", sorted(gc._ds.variables))
    out = gc.to_xarray("ugrid")
    print(ds_digest(out))
    print("cartesian-only vars after:", sorted(gc._ds.variables))
    gc2 = ux.Grid(ds_in, source_grid_spec="custom")
    out2 = gc2.encode_as("UGRID")
    print(ds_digest(out2))
    print("cartesian-only vars after encode_as:", sorted(gc2._ds.variables))
    print("input dataset vars:", sorted(ds_in.variables), h(ds_in["face_node_connectivity"].values))

    # copy() independence w.r.t. exports
    g1 = grids["topo_mixed_fill"]
    g2 = g1.copy()
    e1 = g1.to_xarray("ugrid")
    scribble(e1)
    print("copy unaffected:", grid_state(g2) == grid_state(g1.copy()) or "differs",
          [n for n in g2._ds.variables if any(np.shares_memory(g2._ds[n].values, g1._ds[m].values) for m in g1._ds.variables)])


if __name__ == "__main__":
    main()
