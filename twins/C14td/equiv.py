import sys, os; sys.path.insert(0, os.getcwd())
import hashlib
import warnings
import numpy as np
import uxarray
assert os.path.abspath(uxarray.__file__).startswith(os.path.abspath(os.getcwd()) + os.sep), uxarray.__file__

from uxarray.grid.arcs import (
    point_within_gca,
    extreme_gca_latitude,
    _decide_pole_latitude,
    in_between,
)
from uxarray.grid.intersections import gca_gca_intersection
from uxarray.grid.utils import _angle_of_2_vectors
from uxarray.grid.coordinates import _xyz_to_lonlat_rad_scalar


def ll(lon_deg, lat_deg):
    lon, lat = np.deg2rad(lon_deg), np.deg2rad(lat_deg)
    return np.array([np.cos(lat) * np.cos(lon), np.cos(lat) * np.sin(lon), np.sin(lat)])


def unit(v):
    v = np.asarray(v, dtype=float)
    return v / np.linalg.norm(v)


def rotz(v, deg):
    t = np.deg2rad(deg)
    c, s = np.cos(t), np.sin(t)
    return np.array([c * v[0] - s * v[1], s * v[0] + c * v[1], v[2]])


def fmt(x):
    """Exact, type-revealing rendering."""
    if isinstance(x, np.ndarray):
        flat = [float(t).hex() for t in x.ravel()] if x.dtype.kind == "f" else x.ravel().tolist()
        return f"ndarray(shape={x.shape},dtype={x.dtype},{flat})"
    if isinstance(x, (bool, np.bool_)):
        return f"{type(x).__name__}:{bool(x)}"
    if isinstance(x, (float, np.floating)):
        return f"{type(x).__name__}:{float(x).hex()}"
    return f"{type(x).__name__}:{x!r}"


LINES = []


def emit(tag, fn, *args, **kw):
    with warnings.catch_warnings(record=True) as rec:
        warnings.simplefilter("always")
        with np.errstate(all="warn"):
            try:
                out = fmt(fn(*args, **kw))
            except Exception as e:  # noqa
                mod = type(e).__module__ or ""
                if mod.startswith("numba"):
                    # numba messages quote source lines / line numbers: compare the type only
                    out = f"EXC {type(e).__name__}"
                else:
                    out = f"EXC {type(e).__name__}: {e} args={e.args!r}"
    ws = []  # order kept on purpose
    for w in rec:
        msg = str(w.message)
        if (w.category.__module__ or "").startswith("numba"):
            # numba warnings quote the source location (file, line number) of the jitted function
            msg = msg.split("\n\nFile ")[0]
        ws.append(f"{w.category.__name__}|{msg}")
    LINES.append(f"{tag} -> {out} W={ws}")


# ----------------------------------------------------------------- arcs
named_arcs = {
    "generic": (ll(10, 20), ll(60, 40)),
    "generic_south": (ll(200, -50), ll(250, -10)),
    "equator": (ll(10, 0), ll(100, 0)),
    "equator_exact": (np.array([1.0, 0.0, 0.0]), np.array([0.0, 1.0, 0.0])),
    "equator_antimeridian_exact": (np.array([0.0, -1.0, 0.0]), np.array([1.0, 0.0, 0.0])),
    "meridian": (ll(30, -20), ll(30, 50)),
    "meridian0": (np.array([1.0, 0.0, 0.0]), unit([1.0, 0.0, 1.0])),
    "meridian180": (unit([-1.0, 0.0, -0.3]), unit([-1.0, 0.0, 0.8])),
    "antimeridian": (ll(350, 10), ll(20, 30)),
    "antimeridian_rev": (ll(20, 30), ll(350, 10)),
    "antimeridian_south": (ll(170, -40), ll(-170, -35)),
    "antimeridian_wide": (ll(280, 5), ll(80, -5)),
    "lon0_endpoint": (ll(270, -10), np.array([1.0, 0.0, 0.0])),
    "lon0_endpoint_rev": (np.array([1.0, 0.0, 0.0]), ll(270, -10)),
    "lon_pi_endpoint": (np.array([-1.0, 0.0, 0.0]), ll(300, 20)),
    "straddle_pi": (ll(100, 10), ll(250, 20)),
    "through_npole": (ll(40, 60), ll(220, 70)),
    "through_spole": (ll(40, -60), ll(220, -70)),
    "through_pole_mixed_n": (ll(0, 80), ll(180, -20)),
    "through_pole_mixed_s": (ll(0, -80), ll(180, 20)),
    "through_npole_exact": (unit([1.0, 0.0, 1.0]), unit([-1.0, 0.0, 1.0])),
    "through_spole_exact_y": (unit([0.0, 1.0, -2.0]), unit([0.0, -1.0, -1.0])),
    "endpoint_npole": (np.array([0.0, 0.0, 1.0]), ll(75, 30)),
    "endpoint_spole": (ll(75, -30), np.array([0.0, 0.0, -1.0])),
    "endpoint_npole_cross_eq": (np.array([0.0, 0.0, 1.0]), ll(300, -30)),
    "near_pole": (ll(10, 89.9), ll(150, 89.5)),
    "long_arc": (ll(0, 10), ll(175, 12)),
    "wide_lon": (ll(5, 70), ll(190, 60)),
    "tiny": (ll(100, 45), ll(100.001, 45.001)),
    "antipodal": (ll(10, 20), -ll(10, 20)),
    "antipodal_eq": (np.array([1.0, 0.0, 0.0]), np.array([-1.0, 0.0, 0.0])),
    "antipodal_poles": (np.array([0.0, 0.0, 1.0]), np.array([0.0, 0.0, -1.0])),
    "not_unit": (2.5 * ll(10, 20), 0.5 * ll(60, 40)),
    "symmetric_z": (ll(10, 30), ll(100, -30)),
    "same_lat": (ll(10, 45), ll(100, 45)),
    "degenerate_same_point": (ll(10, 45), ll(10, 45)),
}

rng = np.random.default_rng(20260929)
for i in range(60):
    named_arcs[f"rand{i:02d}"] = (unit(rng.normal(size=3)), unit(rng.normal(size=3)))
# rotations about the polar axis, to sweep the longitude / antimeridian branches
for k, rot in enumerate(np.linspace(0, 360, 25)):
    named_arcs[f"rot{k:02d}"] = (ll(10 + rot, -15), ll(95 + rot, 55))
    named_arcs[f"rotwide{k:02d}"] = (ll(rot, -5), ll(rot + 170, 12))
    named_arcs[f"rotpole{k:02d}"] = (ll(rot, 65), ll(rot + 180, 50))


def arc_points(a, b):
    """Query points: on the arc, on the great circle beyond the ends, off the plane, poles, endpoints."""
    pts = {}
    for t in (0.0, 0.25, 0.5, 0.9, 1.0):
        s = (1 - t) * a + t * b
        n = np.linalg.norm(s)
        if n > 1e-12:
            pts[f"on{t}"] = s / n
    for t in (-0.3, 1.4):
        s = (1 - t) * a + t * b
        n = np.linalg.norm(s)
        if n > 1e-12:
            pts[f"ext{t}"] = s / n
            pts[f"extneg{t}"] = -s / n
    nrm = np.cross(a, b)
    if np.linalg.norm(nrm) > 1e-12:
        nrm = nrm / np.linalg.norm(nrm)
        mid = unit(a + b) if np.linalg.norm(a + b) > 1e-12 else a
        pts["off_small"] = unit(mid + 1e-6 * nrm)
        pts["off_big"] = unit(mid + 0.2 * nrm)
        pts["normal"] = nrm
    pts["npole"] = np.array([0.0, 0.0, 1.0])
    pts["spole"] = np.array([0.0, 0.0, -1.0])
    pts["x"] = np.array([1.0, 0.0, 0.0])
    pts["minus_x"] = np.array([-1.0, 0.0, 0.0])
    pts["anti_a"] = -a
    return pts


for name, (a, b) in named_arcs.items():
    emit(f"angle[{name}]", _angle_of_2_vectors, a, b)
    for et in ("max", "min"):
        emit(f"extreme[{name},{et}]", extreme_gca_latitude, np.array([a, b]), et)
        emit(f"extreme_swapped[{name},{et}]", extreme_gca_latitude, np.array([b, a]), et)
    for pname, p in arc_points(a, b).items():
        for directed in (False, True):
            emit(f"pwg[{name},{pname},dir={directed}]", point_within_gca, p, np.array([a, b]), directed)
            emit(f"pwg_swapped[{name},{pname},dir={directed}]", point_within_gca, p, np.array([b, a]), directed)
            emit(f"pwg_kw[{name},{pname},dir={directed}]", point_within_gca, pt=p, gca_cart=np.array([a, b]), is_directed=directed)
        emit(f"pwg_list[{name},{pname}]", point_within_gca, p, [a, b])
        emit(f"pwg_nested_list[{name},{pname}]", point_within_gca, p, [a.tolist(), b.tolist()])
        emit(f"pwg_tuple[{name},{pname}]", point_within_gca, p, (a, b))

for lat1 in (-1.5, -0.3, 0.0, 0.3, 1.5):
    for lat2 in (-1.2, -0.1, 0.0, 0.4, 1.57):
        emit(f"decide_pole[{lat1},{lat2}]", _decide_pole_latitude, lat1, lat2)
for trip in ((1.0, 2.0, 3.0), (3.0, 2.0, 1.0), (1.0, 4.0, 3.0), (1.0, 1.0, 1.0), (0.0, np.nan, 1.0)):
    emit(f"in_between{trip}", in_between, *trip)

# malformed inputs on ordinary (non-antipodal) arcs
G = np.array(named_arcs["generic"])
emit("pwg[bad:int_pt]", point_within_gca, np.array([1, 0, 0]), G)
emit("pwg[bad:float32_pt]", point_within_gca, np.array([1, 0, 0], dtype=np.float32), G)
emit("pwg[bad:list_pt]", point_within_gca, [1.0, 0.0, 0.0], G)
emit("pwg[bad:tuple_pt]", point_within_gca, (1.0, 0.0, 0.0), G)
emit("pwg[bad:short_pt]", point_within_gca, np.array([1.0, 0.0]), G)
emit("pwg[bad:int_gca]", point_within_gca, np.array([1.0, 0.0, 0.0]), np.array([[1, 0, 0], [0, 1, 0]]))
emit("pwg[bad:one_row]", point_within_gca, np.array([1.0, 0.0, 0.0]), np.array([[1.0, 0.0, 0.0]]))
emit("pwg[bad:nan_pt]", point_within_gca, np.array([np.nan, 0.0, 0.0]), G)
emit("pwg[bad:nan_gca]", point_within_gca, np.array([1.0, 0.0, 0.0]), np.array([[np.nan, 0.0, 0.0], [0.0, 1.0, 0.0]]))
emit("pwg[bad:zero_gca]", point_within_gca, np.array([1.0, 0.0, 0.0]), np.zeros((2, 3)))
emit("pwg[dir=None]", point_within_gca, G[0], G, None)
emit("pwg[dir=1]", point_within_gca, G[0], G, 1)

# ----------------------------------------------------------------- d: the 180-degree guard
# arcs whose length is pi - delta for delta around the MACHINE_EPSILON boundary of the guard,
# on the equator, on a meridian through the pole, and on random great circles; both directions.
deltas = [0.0, 1e-17, 5e-17, 1.1e-16, 2.2e-16, 2.3e-16, 4.4e-16, 4.5e-16, 6.7e-16, 8.9e-16, 1e-15, 3e-15, 1e-14, 1e-12, 1e-9, 1e-6]
frames = {
    "eq": (np.array([1.0, 0.0, 0.0]), np.array([0.0, 1.0, 0.0])),
    "mer": (np.array([1.0, 0.0, 0.0]), np.array([0.0, 0.0, 1.0])),
    "mer_y": (np.array([0.0, 0.0, -1.0]), np.array([0.0, 1.0, 0.0])),
}
for i in range(6):
    e1 = unit(rng.normal(size=3))
    e2 = unit(np.cross(e1, rng.normal(size=3)))
    frames[f"rnd{i}"] = (e1, e2)
for fname, (e1, e2) in frames.items():
    for dlt in deltas:
        for sgn in (1.0, -1.0):
            a = e1
            b = -np.cos(dlt) * e1 + sgn * np.sin(dlt) * e2
            g = np.array([a, b])
            emit(f"guard_angle[{fname},{dlt},{sgn}]", _angle_of_2_vectors, a, b)
            for pname, p in (("a", a), ("b", b), ("e2", sgn * e2), ("-e2", -sgn * e2), ("npole", np.array([0.0, 0.0, 1.0])), ("off", unit(e1 + e2 + np.cross(e1, e2)))):
                for directed in (False, True):
                    emit(f"guard[{fname},{dlt},{sgn},{pname},dir={directed}]", point_within_gca, p, g, directed)
                    emit(f"guard_rev[{fname},{dlt},{sgn},{pname},dir={directed}]", point_within_gca, p, g[::-1], directed)
            emit(f"guard_list[{fname},{dlt},{sgn}]", point_within_gca, a, [a, b])
            emit(f"guard_scaled[{fname},{dlt},{sgn}]", point_within_gca, a, np.array([3.0 * a, 0.25 * b]))
            # consumers of the guard
            emit(f"guard_ggi_first[{fname},{dlt},{sgn}]", gca_gca_intersection, g, np.array([ll(33, -40), ll(35, 70)]))
            emit(f"guard_ggi_second[{fname},{dlt},{sgn}]", gca_gca_intersection, np.array([ll(33, -40), ll(35, 70)]), g)
for i in range(40):
    a = unit(rng.normal(size=3))
    emit(f"guard_exact_antipodal[{i}]", point_within_gca, a, np.array([a, -a]))
    emit(f"guard_exact_antipodal_dir[{i}]", point_within_gca, -a, np.array([a, -a]), True)
    emit(f"guard_exact_antipodal_nonunit[{i}]", point_within_gca, a, np.array([2.0 * a, -0.5 * a]))
    emit(f"guard_exact_antipodal_list[{i}]", point_within_gca, a, [a.tolist(), (-a).tolist()])

# the ValueError object itself (type, args) for the guard
try:
    point_within_gca(np.array([0.0, 1.0, 0.0]), np.array([[1.0, 0.0, 0.0], [-1.0, 0.0, 0.0]]))
    LINES.append("guard_exc: none")
except Exception as e:  # noqa
    LINES.append(f"guard_exc: {type(e).__mro__[0].__name__} {e.args!r} cause={e.__cause__!r}")

# ----------------------------------------------------------------- intersections
pairs = {
    "cross_generic": (named_arcs["generic"], (ll(30, 10), ll(40, 60))),
    "disjoint": (named_arcs["generic"], (ll(200, -10), ll(240, -60))),
    "cross_equator_meridian": (named_arcs["equator"], named_arcs["meridian"]),
    "cross_exact_axes": (
        (np.array([1.0, 0.0, 0.0]), np.array([0.0, 1.0, 0.0])),
        (unit([1.0, 1.0, 1.0]), unit([1.0, 1.0, -1.0])),
    ),
    "cross_antimeridian": (named_arcs["antimeridian"], (ll(5, -10), ll(5, 60))),
    "cross_on_antimeridian": (named_arcs["antimeridian_wide"], (ll(0, -30), ll(0, 30))),
    "cross_at_pole": (named_arcs["through_npole"], (ll(130, 60), ll(310, 70))),
    "cross_pole_endpoint": (named_arcs["endpoint_npole"], named_arcs["through_npole"]),
    "shared_endpoint": ((ll(10, 20), ll(60, 40)), (ll(60, 40), ll(90, -10))),
    "touch_T": ((ll(10, 0), ll(100, 0)), (ll(50, 0), ll(50, 40))),
    "parallel_overlap": ((ll(10, 0), ll(100, 0)), (ll(50, 0), ll(150, 0))),
    "parallel_contained": ((ll(10, 0), ll(100, 0)), (ll(30, 0), ll(60, 0))),
    "parallel_disjoint": ((ll(10, 0), ll(60, 0)), (ll(100, 0), ll(150, 0))),
    "parallel_identical": (named_arcs["generic"], named_arcs["generic"]),
    "parallel_reversed": (named_arcs["generic"], named_arcs["generic"][::-1]),
    "parallel_meridian": ((ll(30, -20), ll(30, 50)), (ll(30, 10), ll(30, 80))),
    "antipodal_first": (named_arcs["antipodal"], named_arcs["equator"]),
    "antipodal_second": (named_arcs["equator"], named_arcs["antipodal_eq"]),
    "antipodal_parallel": (named_arcs["antipodal_eq"], named_arcs["equator_exact"]),
    "not_unit": (named_arcs["not_unit"], (3.0 * ll(30, 10), 0.1 * ll(40, 60))),
    "big_norm": ((1e6 * ll(10, 20), 1e6 * ll(60, 40)), (1e6 * ll(30, 10), 1e6 * ll(40, 60))),
    "near_miss": ((ll(10, 0), ll(100, 0)), (ll(50, 1e-7), ll(50, 40))),
    "nan_input": ((np.array([np.nan, 0.0, 0.0]), ll(60, 40)), (ll(30, 10), ll(40, 60))),
    "inf_input": ((np.array([np.inf, 0.0, 0.0]), ll(60, 40)), (ll(30, 10), ll(40, 60))),
    "inf_second": ((ll(30, 10), ll(40, 60)), (ll(60, 40), np.array([0.0, np.inf, 1.0]))),
    "zero_vector": ((np.zeros(3), ll(60, 40)), (ll(30, 10), ll(40, 60))),
}
for i in range(60):
    g1 = (unit(rng.normal(size=3)), unit(rng.normal(size=3)))
    g2 = (unit(rng.normal(size=3)), unit(rng.normal(size=3)))
    pairs[f"rand{i:02d}"] = (g1, g2)
for i in range(40):
    # guaranteed crossings: two arcs through a common interior point
    c = unit(rng.normal(size=3))
    d1 = unit(np.cross(c, rng.normal(size=3)))
    d2 = unit(np.cross(c, rng.normal(size=3)))
    s1, s2 = rng.uniform(0.05, 1.2, size=2)
    pairs[f"crossing{i:02d}"] = ((unit(c - s1 * d1), unit(c + s2 * d1)), (unit(c - s2 * d2), unit(c + s1 * d2)))
for k, rot in enumerate(np.linspace(0, 360, 19)):
    pairs[f"rotcross{k:02d}"] = (
        (rotz(ll(10, -15), rot), rotz(ll(95, 55), rot)),
        (rotz(ll(40, 50), rot), rotz(ll(70, -20), rot)),
    )
    pairs[f"rotpolecross{k:02d}"] = (
        (rotz(ll(0, 65), rot), rotz(ll(180, 50), rot)),
        (rotz(ll(90, 70), rot), rotz(ll(270, 60), rot)),
    )

for name, (g1, g2) in pairs.items():
    A, B = np.array(g1), np.array(g2)
    emit(f"ggi[{name}]", gca_gca_intersection, A, B)
    emit(f"ggi_swapped_arcs[{name}]", gca_gca_intersection, B, A)
    emit(f"ggi_swapped_ends[{name}]", gca_gca_intersection, A[::-1], B)
    emit(f"ggi_lists[{name}]", gca_gca_intersection, [list(map(float, g1[0])), list(map(float, g1[1]))], B.tolist())
    emit(f"ggi_fma[{name}]", gca_gca_intersection, A, B, fma_disabled=False)

emit("ggi[bad_shape_2d]", gca_gca_intersection, np.array([[1.0, 0.0], [0.0, 1.0]]), np.array([ll(1, 2), ll(3, 4)]))
emit("ggi[bad_shape_second]", gca_gca_intersection, np.array([ll(1, 2), ll(3, 4)]), np.array([[1.0, 0.0], [0.0, 1.0]]))
emit("ggi[one_d]", gca_gca_intersection, np.array([1.0, 0.0, 0.0]), np.array([ll(1, 2), ll(3, 4)]))
emit("ggi[three_rows]", gca_gca_intersection, np.array([ll(1, 2), ll(3, 4), ll(5, 6)]), np.array([ll(1, 2), ll(3, 4)]))
emit("ggi[int_input]", gca_gca_intersection, np.array([[1, 0, 0], [0, 1, 0]]), np.array([[1, 1, 1], [1, 1, -1]]))

# aliasing: results must be fresh arrays, inputs untouched
A = np.array(pairs["cross_generic"][0]); B = np.array(pairs["cross_generic"][1])
A0, B0 = A.copy(), B.copy()
r = gca_gca_intersection(A, B)
LINES.append(f"alias: shares={np.shares_memory(r, A) or np.shares_memory(r, B)} inputs_same={np.array_equal(A, A0) and np.array_equal(B, B0)}")
P = np.array(pairs["parallel_overlap"][0]); Q = np.array(pairs["parallel_overlap"][1])
r = gca_gca_intersection(P, Q)
LINES.append(f"alias_parallel: shares={np.shares_memory(r, P) or np.shares_memory(r, Q)} {fmt(r)}")
pt = ll(40, 80).copy(); pt0 = pt.copy(); G2 = np.array(named_arcs["through_npole"]); G20 = G2.copy()
point_within_gca(pt, G2)
LINES.append(f"pwg_inputs_untouched={np.array_equal(pt, pt0) and np.array_equal(G2, G20)}")

for line in LINES:
    print(line)
print("n_lines", len(LINES))
print("sha256", hashlib.sha256("\n".join(LINES).encode()).hexdigest())
