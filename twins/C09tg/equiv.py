import sys, os; sys.path.insert(0, os.getcwd())
import hashlib, warnings
import numpy as np
import xarray as xr
import uxarray as ux
assert os.path.abspath(ux.__file__).startswith(os.getcwd() + os.sep), ux.__file__
warnings.filterwarnings("ignore")
from uxarray.grid.slice import _slice_face_indices, _slice_node_indices, _slice_edge_indices
from uxarray.constants import INT_FILL_VALUE

M = "test/meshfiles/"
GRIDS = {
    "quadhex": M + "ugrid/quad-hexagon/grid.nc",
    "mixed_exo": M + "exodus/mixed/mixed.exo",
    "mpas": M + "mpas/QU/mesh.QU.1920km.151026.nc",
    "ov_mixed": M + "ugrid/ov_RLL10deg_CSne4/ov_RLL10deg_CSne4.ug",
    "csne8_scrip": M + "scrip/outCSne8/outCSne8.nc",
    "geos_cs": M + "geos-cs/c12/test-c12.native.nc4",
}


def h(a):
    a = np.ascontiguousarray(a)
    return f"{a.dtype}{a.shape}:{hashlib.sha1(a.tobytes()).hexdigest()[:12]}"


def attr_digest(attrs):
    out = []
    for k, v in attrs.items():
        if isinstance(v, np.ndarray):
            out.append((k, h(v)))
        else:
            out.append((k, repr(v)))
    return out


def ds_digest(ds):
    lines = []
    for name in ds.variables:
        v = ds[name]
        lines.append(f"    {name} {v.dims} {h(v.values)} attrs={attr_digest(v.attrs)}")
    lines.append(f"    dims={dict(ds.sizes)} dsattrs={sorted(ds.attrs)}")
    return "\n".join(lines)


DERIVED = ["edge_node_connectivity", "face_edge_connectivity", "edge_face_connectivity",
           "node_face_connectivity", "face_face_connectivity", "n_nodes_per_face",
           "face_lon", "face_lat", "edge_lon", "edge_lat", "face_areas",
           "edge_node_distances", "edge_face_distances", "hole_edge_indices",
           "node_x", "face_x", "edge_x", "edge_node_z", "bounds"]


def derived_digest(g):
    lines = []
    for name in DERIVED:
        try:
            v = getattr(g, name)
            v = v.values if hasattr(v, "values") else np.asarray(v)
            lines.append(f"    D {name} {h(v)}")
        except Exception as e:
            lines.append(f"    D {name} EXC {type(e).__name__}: {str(e)[:80]}")
    return "\n".join(lines)


def report(tag, fn, derived=False):
    try:
        sub = fn()
    except Exception as e:
        print(f"{tag}: EXC {type(e).__name__}: {str(e)[:120]}")
        return None
    print(f"{tag}: nf={sub.n_face} nn={sub.n_node} ne={sub.n_edge} spec={sub.source_grid_spec}")
    print(ds_digest(sub._ds))
    if derived:
        print(derived_digest(sub))
    return sub


def load(path):
    return ux.open_grid(path)


HISTORIES = {
    "fresh": [],
    "edges": ["edge_node_connectivity", "face_edge_connectivity"],
    "all": ["edge_node_connectivity", "face_edge_connectivity", "edge_face_connectivity",
            "node_face_connectivity", "face_face_connectivity", "edge_node_distances",
            "edge_face_distances", "hole_edge_indices", "face_lon", "edge_lon",
            "face_areas", "edge_node_z", "bounds"],
}

rng = np.random.default_rng(7)

for gname, path in GRIDS.items():
    for hname, hist in HISTORIES.items():
        g = load(path)
        for q in hist:
            try:
                getattr(g, q)
            except Exception as e:
                print(f"{gname}/{hname}: prior {q} EXC {type(e).__name__}")
        nf, nn = g.n_face, g.n_node
        k = min(nf, 7)
        unsorted = rng.permutation(nf)[:k]
        tag = f"{gname}/{hname}"
        report(tag + "/face_unsorted" + repr(unsorted.tolist()),
               lambda: g.isel(n_face=unsorted), derived=True)
        report(tag + "/face_scalar", lambda: g.isel(n_face=nf - 1), derived=(hname == "all"))
        report(tag + "/face_npscalar", lambda: g.isel(n_face=np.int64(0)))
        report(tag + "/face_single_list", lambda: g.isel(n_face=[nf // 2]))
        report(tag + "/face_all", lambda: g.isel(n_face=np.arange(nf)), derived=(hname != "edges"))
        report(tag + "/face_negative", lambda: g.isel(n_face=[-1, 0]))
        report(tag + "/face_dup", lambda: g.isel(n_face=[0, 0, nf - 1]))
        report(tag + "/face_empty", lambda: g.isel(n_face=[]))
        report(tag + "/face_oob", lambda: g.isel(n_face=[nf]))
        report(tag + "/face_slice", lambda: g.isel(n_face=slice(0, 2)))
        report(tag + "/face_float", lambda: g.isel(n_face=[0.0, 1.0]))
        report(tag + "/face_boolmask", lambda: g.isel(n_face=np.arange(nf) % 2 == 0))
        nodes = rng.permutation(nn)[: min(nn, 4)]
        report(tag + "/node_unsorted" + repr(nodes.tolist()),
               lambda: g.isel(n_node=nodes), derived=(hname == "fresh"))
        report(tag + "/node_scalar", lambda: g.isel(n_node=0))
        report(tag + "/node_all", lambda: g.isel(n_node=np.arange(nn)))
        report(tag + "/node_empty", lambda: g.isel(n_node=[]))
        ne = g.n_edge
        edges = rng.permutation(ne)[: min(ne, 4)]
        report(tag + "/edge_unsorted" + repr(edges.tolist()),
               lambda: g.isel(n_edge=edges), derived=(hname == "edges"))
        report(tag + "/edge_scalar", lambda: g.isel(n_edge=ne - 1))
        report(tag + "/edge_list1", lambda: g.isel(n_edge=[0]))
        report(tag + "/edge_all", lambda: g.isel(n_edge=np.arange(ne)))
        # direct calls incl. the inclusive flag
        for f in (_slice_face_indices, _slice_node_indices, _slice_edge_indices):
            report(tag + f"/{f.__name__}/exclusive", lambda: f(g, [0], inclusive=False))
            report(tag + f"/{f.__name__}/inclusive_kw", lambda: f(g, [0, 1], inclusive=True))
        # subset of a subset
        sub = g.isel(n_face=unsorted)
        report(tag + "/subsub", lambda: sub.isel(n_face=[sub.n_face - 1, 0]), derived=True)
        report(tag + "/subsub_node", lambda: sub.isel(n_node=[0]))
        # source unchanged by slicing
        print(f"{tag}: source after slicing")
        print(ds_digest(g._ds))

# a hand-made inconsistent source: edge table referring to a node outside the faces' nodes
fnc = np.array([[0, 1, 2, INT_FILL_VALUE], [0, 2, 3, 4]])
lon = np.array([0.0, 10.0, 10.0, 0.0, -5.0, 40.0])
lat = np.array([0.0, 0.0, 10.0, 10.0, 5.0, 40.0])
g = ux.Grid.from_topology(node_lon=lon, node_lat=lat, face_node_connectivity=fnc,
                          fill_value=INT_FILL_VALUE)
report("handmade/fresh/face1", lambda: g.isel(n_face=[1]), derived=True)
report("handmade/fresh/face0", lambda: g.isel(n_face=0), derived=True)
report("handmade/fresh/node5_isolated", lambda: g.isel(n_node=[5]))
g = ux.Grid.from_topology(node_lon=lon, node_lat=lat, face_node_connectivity=fnc,
                          fill_value=INT_FILL_VALUE)
g._ds["edge_node_connectivity"] = xr.DataArray(
    np.array([[0, 1], [1, 2], [0, 2], [2, 3], [3, 4], [0, 4], [4, 5]]),
    dims=["n_edge", "two"], attrs={"inverse_indices": np.arange(3), "fill_value_mask": np.zeros(2, bool), "keep": "me"})
g._ds["face_edge_connectivity"] = xr.DataArray(
    np.array([[0, 1, 2, INT_FILL_VALUE], [2, 3, 4, 6]]), dims=["n_face", "n_max_face_edges"])
report("handmade/badedges/face1", lambda: g.isel(n_face=[1]))
report("handmade/badedges/face0", lambda: g.isel(n_face=[0]))

# data sliced together with the grid (built by hand: open_dataset does not work offline)
for gname in ("quadhex", "mixed_exo", "mpas"):
    g = load(GRIDS[gname])
    for nm, n in (("face", g.n_face), ("node", g.n_node), ("edge", g.n_edge)):
        arr = np.arange(3.0 * n).reshape(3, n) * 1.5
        for dims, a in (((f"n_{nm}",), arr[0]), (("t", f"n_{nm}"), arr), ((f"n_{nm}", "lev"), arr.T.copy())):
            v = ux.UxDataArray(xr.DataArray(a, dims=dims, name="v"), uxgrid=g)
            for sel in ([n - 1, 0, n // 2], n // 3, [1]):
                try:
                    r = v.isel(**{f"n_{nm}": sel})
                    print(f"data/{gname}/{nm}", dims, sel, h(r.values), r.dims, r.uxgrid.n_face)
                    print(ds_digest(r.uxgrid._ds))
                except Exception as e:
                    print(f"data/{gname}/{nm}", dims, sel, "EXC", type(e).__name__, str(e)[:100])
