import sys, os

sys.path.insert(0, os.getcwd())

import hashlib
import warnings

import numpy as np

import uxarray
import uxarray as ux

assert os.path.abspath(uxarray.__file__).startswith(os.path.abspath(os.getcwd()) + os.sep), (
    uxarray.__file__
)

from uxarray.constants import INT_DTYPE, INT_FILL_VALUE
from uxarray.core.gradient import (
    _calculate_edge_face_difference,
    _calculate_edge_node_difference,
    _calculate_grad_on_edge_from_faces,
)

M = os.path.join(os.getcwd(), "test", "meshfiles")
PATHS = {
    "mixed": os.path.join(M, "exodus", "mixed", "mixed.exo"),
    "mpas": os.path.join(M, "mpas", "QU", "mesh.QU.1920km.151026.nc"),
    "quadhex": os.path.join(M, "ugrid", "quad-hexagon", "grid.nc"),
    "csne30": os.path.join(M, "ugrid", "outCSne30", "outCSne30.ug"),
    "scrip": os.path.join(M, "scrip", "outCSne8", "outCSne8.nc"),
    "ov": os.path.join(M, "ugrid", "ov_RLL10deg_CSne4", "ov_RLL10deg_CSne4.ug"),
}


def h(a):
    a = np.ascontiguousarray(np.asarray(a))
    return hashlib.sha1(a.tobytes()).hexdigest()[:16]


def show(label, fn):
    with warnings.catch_warnings(record=True) as w:
        warnings.simplefilter("always")
        try:
            out = fn()
        except Exception as e:  # noqa
            print(f"  {label}: EXC {type(e).__name__} {e.args!r}")
            return
    msgs = sorted(
        {str(x.message)[:60] for x in w if "uxarray" in str(x.filename) and x.category is UserWarning}
    )
    if hasattr(out, "uxgrid"):
        vals = out.values
        print(
            f"  {label}: type={type(out).__name__} name={out.name!r} dims={out.dims} dtype={vals.dtype} "
            f"shape={vals.shape} sha={h(vals)} nnz={int(np.count_nonzero(np.nan_to_num(vals)))} "
            f"nan={int(np.isnan(vals).sum())} writeable={vals.flags.writeable} warn={msgs}"
        )
    else:
        vals = np.asarray(out)
        print(
            f"  {label}: ndarray dtype={vals.dtype} shape={vals.shape} sha={h(vals)} "
            f"repr={np.array2string(vals.ravel()[:8], precision=17)}"
        )


def grid_state(g):
    return {k: (str(g._ds[k].dtype), g._ds[k].shape, h(g._ds[k].values)) for k in sorted(g._ds.variables)}


def exercise(label, g):
    print(f"== {label}: n_face={g.n_face} n_node={g.n_node}")
    rng = np.random.default_rng(11)
    face_1d = rng.normal(size=g.n_face)
    face_3d = rng.normal(size=(2, 3, g.n_face))
    face_i = rng.integers(-5, 5, size=(2, g.n_face))
    face_f32 = face_1d.astype(np.float32)
    node_2d = rng.normal(size=(2, g.n_node))
    const = np.full(g.n_face, 2.5)

    def da(data, dim, name="v", extra=("time", "lev")):
        dims = list(extra[: data.ndim - 1]) + [dim]
        return ux.UxDataArray(data, dims=dims, uxgrid=g, name=name)

    show("diff face 1d", lambda: da(face_1d, "n_face").difference())
    show("diff face 1d (before state)", lambda: da(face_1d, "n_face").difference("edge"))
    state = grid_state(g)
    show("grad face 1d", lambda: da(face_1d, "n_face").gradient())
    show("grad face 1d noname", lambda: da(face_1d, "n_face", name=None).gradient())
    show("grad face 1d intname", lambda: da(face_1d, "n_face", name=5).gradient())
    show("grad face 1d normalize", lambda: da(face_1d, "n_face").gradient(normalize=True))
    show("grad face 1d nomag", lambda: da(face_1d, "n_face").gradient(use_magnitude=False))
    show("grad face 3d", lambda: da(face_3d, "n_face").gradient())
    show("grad face 3d normalize", lambda: da(face_3d, "n_face", name="x").gradient(normalize=True))
    show("grad face int", lambda: da(face_i, "n_face").gradient())
    show("grad face f32", lambda: da(face_f32, "n_face").gradient())
    show("grad const normalize", lambda: da(const, "n_face").gradient(normalize=True))
    show("grad node", lambda: da(node_2d, "n_node").gradient())
    show("diff face 3d", lambda: da(face_3d, "n_face", name=None).difference())
    show("diff face int", lambda: da(face_i, "n_face").difference(destination="edge"))
    show("diff face->face", lambda: da(face_1d, "n_face").difference("face"))
    show("diff face->node", lambda: da(face_1d, "n_face").difference("node"))
    show("diff bad", lambda: da(face_1d, "n_face").difference("cell"))
    show("diff node", lambda: da(node_2d, "n_node").difference())
    show("diff node->node", lambda: da(node_2d, "n_node").difference("node"))
    show("diff edge", lambda: da(rng.normal(size=g.n_edge), "n_edge").difference())
    now = grid_state(g)
    changed = sorted(k for k in state if now.get(k) != state[k])
    print(f"  grid variables changed by gradient/difference: {changed} added: {sorted(set(now) - set(state))}")
    efc = g.edge_face_connectivity.values
    print(
        f"  edge_face_connectivity dtype={efc.dtype} shape={efc.shape} sha={h(efc)} "
        f"n_boundary={int((efc[:, 1] == INT_FILL_VALUE).sum())}"
    )
    print(f"  edge_face_distances sha={h(g.edge_face_distances.values)}")


for name in ["quadhex", "mixed", "mpas", "csne30", "scrip", "ov"]:
    g = ux.open_grid(PATHS[name])
    exercise(name, g)
    # a piece of the grid: many edges saddle one face only (fill values)
    with warnings.catch_warnings():
        warnings.simplefilter("ignore")
        sub = g.isel(n_face=list(range(0, g.n_face, 3))[:40])
    exercise(name + " subset", sub)
    # history: everything derived first, then again
    g2 = ux.open_grid(PATHS[name])
    for attr in ("edge_node_connectivity", "face_edge_connectivity", "face_face_connectivity", "face_areas"):
        getattr(g2, attr)
    exercise(name + " warmed", g2)

print("== helpers on hand-made tables")
F = INT_FILL_VALUE
tables = {
    "mixed fill": np.array([[0, 1], [1, F], [2, 0], [3, F], [1, 2]], dtype=INT_DTYPE),
    "all fill": np.array([[0, F], [1, F], [2, F]], dtype=INT_DTYPE),
    "no fill": np.array([[0, 1], [1, 2], [2, 3], [3, 0]], dtype=INT_DTYPE),
    "no edges": np.empty((0, 2), dtype=INT_DTYPE),
    "first fill": np.array([[F, 1], [0, 2], [F, F]], dtype=INT_DTYPE),
}
rng = np.random.default_rng(3)
for tname, t in tables.items():
    n_edge = t.shape[0]
    dist = rng.uniform(0.1, 2.0, size=n_edge)
    for dname, d in {
        "1d": rng.normal(size=4),
        "2d": rng.normal(size=(3, 4)),
        "int": rng.integers(-9, 9, size=(2, 4)),
        "nan": np.array([np.nan, 1.0, np.inf, -2.0]),
        "empty lead": np.empty((0, 4)),
    }.items():
        t0, d0, dist0 = t.copy(), d.copy(), dist.copy()
        show(f"{tname}/{dname} diff", lambda: _calculate_edge_face_difference(d, t, n_edge))
        show(f"{tname}/{dname} grad", lambda: _calculate_grad_on_edge_from_faces(d, t, n_edge, dist))
        show(
            f"{tname}/{dname} grad norm",
            lambda: _calculate_grad_on_edge_from_faces(d, t, n_edge, dist, normalize=True),
        )
        show(
            f"{tname}/{dname} grad kw",
            lambda: _calculate_grad_on_edge_from_faces(
                d_var=d, edge_faces=t, n_edge=n_edge, edge_face_distances=dist, normalize=False
            ),
        )
        same = (
            np.array_equal(t, t0)
            and np.array_equal(d, d0, equal_nan=d.dtype.kind == "f")
            and np.array_equal(dist, dist0)
        )
        print(f"  {tname}/{dname} inputs untouched: {same}")
    if n_edge:
        show(f"{tname} node diff", lambda: _calculate_edge_node_difference(rng.normal(size=(2, 4)), np.abs(t) % 4))
