import sys, os; sys.path.insert(0, os.getcwd())
import hashlib
import warnings
import numpy as np
import xarray as xr
import uxarray as ux

assert os.path.abspath(ux.__file__).startswith(os.path.abspath(os.getcwd()) + os.sep), ux.__file__
warnings.filterwarnings("ignore")

from uxarray.constants import INT_FILL_VALUE
from uxarray.grid.connectivity import get_face_node_partitions
from uxarray.core import aggregation as agg

AGGS = ["mean", "min", "max", "median", "std", "var", "sum", "prod", "all", "any"]


def digest(a):
    a = np.asarray(a)
    h = hashlib.sha256(np.ascontiguousarray(a).tobytes()).hexdigest()[:16]
    return f"{a.dtype}|{a.shape}|{h}"


def ring_grid(sizes, seed):
    """Faces of the requested sizes in the requested order; each face takes a
    run of nodes from a shared pool so neighbouring faces share nodes."""
    rng = np.random.default_rng(seed)
    n_node = max(8, sum(sizes) // 2 + 3)
    lon = np.linspace(-170.0, 170.0, n_node) + rng.uniform(-1, 1, n_node)
    lat = rng.uniform(-60.0, 60.0, n_node)
    width = max(sizes)
    conn = np.full((len(sizes), width), INT_FILL_VALUE, dtype=np.int64)
    start = 0
    for i, s in enumerate(sizes):
        conn[i, :s] = (start + np.arange(s)) % n_node
        start += max(1, s - 2)
    return ux.Grid.from_topology(lon, lat, conn, fill_value=INT_FILL_VALUE), n_node


def node_data(kind, lead, n_node, seed):
    rng = np.random.default_rng(seed)
    shape = tuple(lead) + (n_node,)
    if kind == "float":
        return rng.normal(size=shape)
    if kind == "float32":
        return rng.normal(size=shape).astype(np.float32)
    if kind == "int":
        return rng.integers(-3, 4, size=shape)
    if kind == "bool":
        return rng.integers(0, 2, size=shape).astype(bool)
    if kind == "nan":
        d = rng.normal(size=shape)
        d[..., ::3] = np.nan
        return d
    raise AssertionError


def show_partitions():
    print("== get_face_node_partitions")
    cases = [
        [3, 3, 3],
        [4],
        [3, 4, 3, 4, 5, 3],
        [6, 5, 4, 3],
        [5, 3, 5, 3, 5, 8, 3],
        [7, 7, 3, 7, 3, 3, 4, 4, 10],
    ]
    rng = np.random.default_rng(0)
    cases.append(list(rng.integers(3, 9, size=200)))
    cases.append(list(rng.permutation(np.repeat([3, 4, 6], [50, 1, 20]))))
    for c in cases:
        for dt in (np.int64, np.int32, np.intp):
            out = get_face_node_partitions(np.array(c, dtype=dt))
            print(len(c), np.dtype(dt).name, [digest(o) for o in out],
                  out[0].tolist()[:12], out[2].tolist(), out[3].tolist())
    # xarray-free call with a non-contiguous view
    base = np.array([3, 9, 4, 9, 3, 9, 5, 9, 4, 9])
    out = get_face_node_partitions(base[::2])
    print("strided", [o.tolist() for o in out])


def show_aggregations():
    print("== topological aggregations")
    layouts = {
        "tri": [3, 3, 3, 3],
        "quad": [4, 4, 4],
        "mixed": [3, 4, 3, 5, 4, 6, 3],
        "desc": [6, 5, 4, 3],
        "onebig": [3, 3, 8, 3, 3],
        "shuffled": list(np.random.default_rng(5).integers(3, 8, size=40)),
    }
    for name, sizes in layouts.items():
        grid, n_node = ring_grid(sizes, seed=len(sizes))
        print(name, "n_face", grid.n_face, "n_edge", grid.n_edge, "n_node", grid.n_node,
              digest(grid.n_nodes_per_face.values), digest(grid.edge_node_connectivity.values))
        for kind in ("float", "float32", "int", "bool", "nan"):
            for lead, dims in (((), ("n_node",)), ((2,), ("time", "n_node")), ((2, 3), ("time", "lev", "n_node"))):
                data = node_data(kind, lead, n_node, seed=11)
                uxda = ux.UxDataArray(data, dims=dims, uxgrid=grid, name="v_" + kind)
                for a in AGGS:
                    for dest in ("face", "edge"):
                        r = getattr(uxda, "topological_" + a)(destination=dest)
                        print(name, kind, dims, a, dest, type(r).__name__, r.dims, r.name,
                              r.uxgrid is grid, digest(r.values))
                # per-element reference for the face mean / max on the first leading index
                ref = []
                fnc = grid.face_node_connectivity.values
                for f in range(grid.n_face):
                    nodes = fnc[f][fnc[f] != INT_FILL_VALUE]
                    ref.append(np.max(data[..., nodes], axis=-1))
                ref = np.stack(ref, axis=-1)
                got = uxda.topological_max(destination="face").values
                print(name, kind, dims, "max-vs-ref", bool(np.array_equal(got, ref, equal_nan=True)))
        # kwargs forwarded to the reduction
        data = node_data("float", (2,), n_node, seed=3)
        uxda = ux.UxDataArray(data, dims=("time", "n_node"), uxgrid=grid, name="kw")
        for dest in ("face", "edge"):
            print(name, "ddof", dest, digest(uxda.topological_std(destination=dest, ddof=1).values),
                  digest(uxda.topological_var(destination=dest, ddof=1).values))
            print(name, "dtype-kw", dest, digest(uxda.topological_sum(destination=dest, dtype=np.float32).values))
        # dask-backed input
        dk = uxda.chunk({"time": 1})
        for a in ("mean", "min", "prod", "any"):
            for dest in ("face", "edge"):
                r = getattr(dk, "topological_" + a)(destination=dest)
                print(name, "dask", a, dest, r.dims, type(r.data).__name__, digest(np.asarray(r.values)))


def show_errors():
    print("== error paths")
    grid, n_node = ring_grid([3, 4, 5, 3], seed=1)

    def attempt(label, fn):
        try:
            r = fn()
            print(label, "OK", type(r).__name__, getattr(r, "dims", None))
        except Exception as e:  # noqa
            print(label, type(e).__name__, str(e))

    node = ux.UxDataArray(np.arange(n_node, dtype=float), dims=("n_node",), uxgrid=grid, name="n")
    face = ux.UxDataArray(np.arange(grid.n_face, dtype=float), dims=("n_face",), uxgrid=grid, name="f")
    edge = ux.UxDataArray(np.arange(grid.n_edge, dtype=float), dims=("n_edge",), uxgrid=grid, name="e")
    other = ux.UxDataArray(np.arange(5, dtype=float), dims=("x",), uxgrid=grid, name="o")
    both = ux.UxDataArray(np.zeros((grid.n_face, n_node)), dims=("n_face", "n_node"), uxgrid=grid, name="b")
    for lab, v in (("node", node), ("face", face), ("edge", edge), ("other", other), ("both", both)):
        for dest in (None, "face", "edge", "node", "bogus", 3):
            attempt(f"{lab}->{dest!r}", lambda v=v, dest=dest: v.topological_mean(destination=dest))
            attempt(f"{lab}->{dest!r} any", lambda v=v, dest=dest: v.topological_any(destination=dest))
    attempt("missing-destination", lambda: node.topological_mean())
    attempt("bad-agg-face", lambda: agg._uxda_grid_aggregate(node, "face", "nope"))
    attempt("bad-agg-edge", lambda: agg._uxda_grid_aggregate(node, "edge", "nope"))
    attempt("direct-face-on-face", lambda: agg._node_to_face_aggregation(face, "mean", {}))
    attempt("direct-edge-on-face", lambda: agg._node_to_edge_aggregation(face, "mean", {}))
    attempt("bad-kwarg-face", lambda: node.topological_mean(destination="face", bogus=1))
    attempt("bad-kwarg-edge", lambda: node.topological_mean(destination="edge", bogus=1))
    attempt("axis-kwarg-face", lambda: node.topological_mean(destination="face", axis=0))
    # the source array is untouched and results are fresh arrays
    before = node.values.copy()
    r1 = node.topological_sum(destination="face")
    r2 = node.topological_sum(destination="face")
    r1.values[...] = -1
    print("fresh", bool(np.array_equal(node.values, before)), bool((r2.values != -1).all()),
          np.shares_memory(r1.values, r2.values))


show_partitions()
show_aggregations()
show_errors()
print("done")
