import sys, os; sys.path.insert(0, os.getcwd())
import hashlib
import warnings

import numpy as np
import xarray as xr

import uxarray
import uxarray as ux

assert os.path.abspath(uxarray.__file__).startswith(os.path.abspath(os.getcwd()) + os.sep), uxarray.__file__

import uxarray.constants as C
from uxarray.constants import INT_DTYPE, INT_FILL_VALUE
from uxarray.io import _icon
from uxarray.io._icon import _standardize_connectivity, _primal_to_ugrid, _read_icon
from uxarray.io.utils import _parse_grid_type

MESH = os.path.join(os.getcwd(), "test", "meshfiles")
TMPD = os.path.join(os.path.dirname(os.path.abspath(__file__)), "tmp_equiv")
os.makedirs(TMPD, exist_ok=True)


def h(a):
    a = np.asarray(a)
    flags = f"C{int(a.flags.c_contiguous)}F{int(a.flags.f_contiguous)}W{int(a.flags.writeable)}O{int(a.flags.owndata)}"
    b = np.ascontiguousarray(a)
    return f"{a.dtype}{a.shape}{flags}:{hashlib.sha256(b.tobytes()).hexdigest()[:16]}"


# ---------------------------------------------------------------------------
# 0. constants
# ---------------------------------------------------------------------------
print("== constants")
print("INT_DTYPE", C.INT_DTYPE, C.INT_DTYPE is np.intp, np.dtype(C.INT_DTYPE))
print("INT_FILL_VALUE", repr(C.INT_FILL_VALUE), type(C.INT_FILL_VALUE).__name__,
      C.INT_FILL_VALUE == np.iinfo(np.intp).min)
print("ERROR_TOLERANCE", repr(C.ERROR_TOLERANCE), type(C.ERROR_TOLERANCE).__name__,
      float(C.ERROR_TOLERANCE).hex(), C.ERROR_TOLERANCE.dtype)
print("MACHINE_EPSILON", repr(C.MACHINE_EPSILON), type(C.MACHINE_EPSILON).__name__,
      float(C.MACHINE_EPSILON).hex(), C.MACHINE_EPSILON.dtype)
print("others", C.ENABLE_JIT_CACHE, C.ENABLE_JIT, C.ENABLE_FMA, C.GRID_DIMS, C.WGS84_CRS)
print("public names", sorted(n for n in vars(C) if not n.startswith("_")))
print("re-exports", ux.INT_FILL_VALUE == C.INT_FILL_VALUE if hasattr(ux, "INT_FILL_VALUE") else "n/a")
import uxarray.grid.connectivity as gc
import uxarray.grid.coordinates as gco

for mod in (gc, gco, _icon):
    for n in ("INT_DTYPE", "INT_FILL_VALUE", "ERROR_TOLERANCE", "MACHINE_EPSILON"):
        if hasattr(mod, n):
            v = getattr(mod, n)
            print("  ", mod.__name__, n, repr(v), type(v).__name__, v is getattr(C, n))

# ---------------------------------------------------------------------------
# 1. _standardize_connectivity directly
# ---------------------------------------------------------------------------
print("== _standardize_connectivity")


def std(tag, arr, dims=("nv", "cell")):
    da = xr.DataArray(arr, dims=dims)
    before = np.array(da.values, copy=True)
    with warnings.catch_warnings(record=True) as w:
        warnings.simplefilter("always")
        try:
            out = _standardize_connectivity(da)
            print(f"[{tag}] {h(out)} type={type(out).__name__}")
            print("    ", out.tolist() if out.size <= 40 else "...")
            print("     aliases input:", np.shares_memory(out, da.values),
                  "input untouched:", np.array_equal(before, da.values, equal_nan=before.dtype.kind == "f"))
        except BaseException as e:  # noqa
            print(f"[{tag}] RAISED {type(e).__name__}: {str(e)[:160]!r}")
        for x in w:
            print(f"     warning {x.category.__name__}: {str(x.message)[:100]!r}")


tri = np.array([[1, 2, 3, 1], [2, 3, 4, 4], [3, 4, 1, 2]])
std("int64 plain", tri.astype(np.int64))
std("int32 plain", tri.astype(np.int32))
std("int16", tri.astype(np.int16))
std("uint8", tri.astype(np.uint8))
std("uint64", tri.astype(np.uint64))
std("zeros as missing", np.array([[1, 2, 0], [2, 0, 0], [3, 4, 1]], dtype=np.int32))
std("negatives as missing", np.array([[1, -1, 5], [2, -9, 0], [3, 4, 1]], dtype=np.int64))
std("all missing", np.zeros((3, 4), dtype=np.int32))
std("contains INT_FILL_VALUE", np.array([[1, INT_FILL_VALUE], [2, 3], [INT_FILL_VALUE + 1, 1]], dtype=np.int64))
std("contains int64 max", np.array([[np.iinfo(np.int64).max, 1], [2, 3], [4, 1]], dtype=np.int64))
std("entry == 1 (-> 0)", np.ones((3, 2), dtype=np.int32))
std("float exact", tri.astype(np.float64))
std("float32 exact", tri.astype(np.float32))
std("float fractional", np.array([[1.9, 0.5], [2.2, -0.5], [3.0, 1.0]]))
std("float nan", np.array([[1.0, np.nan], [2.0, 0.0], [3.0, 1.0]]))
std("float inf", np.array([[1.0, np.inf], [2.0, -np.inf], [3.0, 1.0]]))
std("bool", np.array([[True, False], [True, True], [False, True]]))
std("fortran ordered", np.asfortranarray(tri.astype(np.int64)))
std("non-contiguous slice", np.arange(1, 49, dtype=np.int64).reshape(6, 8)[::2, ::2])
std("empty (3,0)", np.zeros((3, 0), dtype=np.int32))
std("empty (0,3)", np.zeros((0, 3), dtype=np.int32))
std("1-d", np.array([1, 0, 3], dtype=np.int32), dims=("cell",))
std("3-d", np.arange(-2, 22, dtype=np.int32).reshape(2, 3, 4), dims=("a", "b", "c"))
std("0-d", np.array(5, dtype=np.int32), dims=())
std("two x edge", np.array([[1, 2, 3, 0, -1], [2, 3, 1, 4, 5]], dtype=np.int32), dims=("nc", "edge"))
std("object dtype", np.array([[1, 2], [3, None]], dtype=object))
std("string dtype", np.array([["1", "2"], ["3", "0"]]))
rng = np.random.default_rng(12345)
std("random big", rng.integers(-3, 2000, size=(6, 700)).astype(np.int32))
std("random big int64 F", np.asfortranarray(rng.integers(-3, 2000, size=(3, 900))))

# not an xarray object
for tag, obj in [("ndarray input", tri), ("list input", tri.tolist()), ("None", None)]:
    try:
        print(f"[{tag}]", h(_standardize_connectivity(obj)))
    except BaseException as e:  # noqa
        print(f"[{tag}] RAISED {type(e).__name__}: {str(e)[:120]!r}")


# ---------------------------------------------------------------------------
# 2. synthetic ICON grids
# ---------------------------------------------------------------------------
def xyz_to_lonlat(p):
    p = np.asarray(p, dtype=float)
    p = p / np.linalg.norm(p, axis=-1, keepdims=True)
    return np.arctan2(p[..., 1], p[..., 0]), np.arcsin(p[..., 2])


def build_icon(verts_xyz, faces, *, conn_dtype=np.int32, missing=0, lon_0_2pi=False, nv=None,
               coord_dtype=np.float64, extra=True, names=None):
    """faces: list of lists of zero-based vertex ids (any polygon size)."""
    verts_xyz = np.asarray(verts_xyz, dtype=float)
    n_cell = len(faces)
    nv = nv or max(len(f) for f in faces)
    edges = {}
    edge_list = []
    cell_edges = []
    for ci, f in enumerate(faces):
        ce = []
        for k in range(len(f)):
            a, b = f[k], f[(k + 1) % len(f)]
            key = (min(a, b), max(a, b))
            if key not in edges:
                edges[key] = len(edge_list)
                edge_list.append([key, []])
            edge_list[edges[key]][1].append(ci)
            ce.append(edges[key])
        cell_edges.append(ce)
    n_edge = len(edge_list)

    voc = np.full((nv, n_cell), missing, dtype=np.int64)
    eoc = np.full((nv, n_cell), missing, dtype=np.int64)
    nci = np.full((nv, n_cell), missing, dtype=np.int64)
    for ci, f in enumerate(faces):
        for k, v in enumerate(f):
            voc[k, ci] = v + 1
            eoc[k, ci] = cell_edges[ci][k] + 1
            others = [c for c in edge_list[cell_edges[ci][k]][1] if c != ci]
            if others:
                nci[k, ci] = others[0] + 1
    aco = np.full((2, n_edge), missing, dtype=np.int64)
    ev = np.zeros((2, n_edge), dtype=np.int64)
    for ei, (key, cells) in enumerate(edge_list):
        ev[:, ei] = (key[0] + 1, key[1] + 1)
        for k, c in enumerate(cells[:2]):
            aco[k, ei] = c + 1

    vlon, vlat = xyz_to_lonlat(verts_xyz)
    cxyz = np.array([verts_xyz[f].mean(axis=0) for f in faces])
    clon, clat = xyz_to_lonlat(cxyz)
    exyz = np.array([verts_xyz[list(key)].mean(axis=0) for key, _ in edge_list])
    elon, elat = xyz_to_lonlat(exyz)
    if lon_0_2pi:
        vlon, clon, elon = (np.mod(x, 2 * np.pi) for x in (vlon, clon, elon))

    ds = xr.Dataset()
    ds["vlon"] = xr.DataArray(vlon.astype(coord_dtype), dims=["vertex"], attrs={"units": "radian"})
    ds["vlat"] = xr.DataArray(vlat.astype(coord_dtype), dims=["vertex"], attrs={"units": "radian"})
    ds["elon"] = xr.DataArray(elon.astype(coord_dtype), dims=["edge"])
    ds["elat"] = xr.DataArray(elat.astype(coord_dtype), dims=["edge"])
    ds["clon"] = xr.DataArray(clon.astype(coord_dtype), dims=["cell"])
    ds["clat"] = xr.DataArray(clat.astype(coord_dtype), dims=["cell"])
    ds["vertex_of_cell"] = xr.DataArray(voc.astype(conn_dtype), dims=["nv", "cell"])
    ds["edge_of_cell"] = xr.DataArray(eoc.astype(conn_dtype), dims=["nv", "cell"])
    ds["neighbor_cell_index"] = xr.DataArray(nci.astype(conn_dtype), dims=["nv", "cell"])
    ds["adjacent_cell_of_edge"] = xr.DataArray(aco.astype(conn_dtype), dims=["nc", "edge"])
    ds["edge_vertices"] = xr.DataArray(ev.astype(conn_dtype), dims=["nc", "edge"])
    if extra:
        ds["cell_area"] = xr.DataArray(np.ones(n_cell), dims=["cell"])
        ds.attrs["title"] = "synthetic ICON grid"
    return ds


OCT_V = [(1, 0, 0), (0, 1, 0), (-1, 0, 0), (0, -1, 0), (0, 0, 1), (0, 0, -1)]
OCT_F = [[0, 1, 4], [1, 2, 4], [2, 3, 4], [3, 0, 4], [1, 0, 5], [2, 1, 5], [3, 2, 5], [0, 3, 5]]
# tilted so that no vertex sits exactly on a pole / antimeridian
ROT = np.array([[0.8, -0.36, 0.48], [0.6, 0.48, -0.64], [0.0, 0.8, 0.6]])
OCT_VR = (np.array(OCT_V, dtype=float) @ ROT.T).tolist()

# mixed: a cube (quads) with one face split into two triangles
CUBE_V = [(-1, -1, -1), (1, -1, -1), (1, 1, -1), (-1, 1, -1), (-1, -1, 1), (1, -1, 1), (1, 1, 1), (-1, 1, 1)]
CUBE_F = [[0, 3, 2, 1], [4, 5, 6], [4, 6, 7], [0, 1, 5, 4], [1, 2, 6, 5], [2, 3, 7, 6], [3, 0, 4, 7]]
# pentagon + hexagon + triangle patch around (lon=180) crossing the antimeridian
PATCH_V = [(-1, 0.2, 0.1), (-1, 0.1, 0.3), (-1, -0.1, 0.3), (-1, -0.2, 0.1), (-1, -0.1, -0.1), (-1, 0.1, -0.1),
           (-1, 0.3, 0.4), (-1, 0.4, 0.15), (-1, 0.0, 0.55)]
PATCH_F = [[0, 1, 2, 3, 4, 5], [0, 7, 6, 1], [1, 6, 8, 2], [0, 5, 7]]


def digest(tag, g):
    print(f"[{tag}] source={g.source_grid_spec} n_face={g.n_face} n_node={g.n_node} n_edge={g.n_edge} "
          f"n_max={g.n_max_face_nodes}")
    print(f"   ds variable order={list(g._ds.variables)}")
    print(f"   ds dims={dict(g._ds.sizes)} attrs={dict(g._ds.attrs)}")
    for name in list(g._ds.variables):
        v = g._ds[name]
        print(f"   {name}: dims={v.dims} {h(v.values)} attrs={dict(v.attrs)}")
    for name in ("face_node_connectivity", "face_edge_connectivity", "face_face_connectivity",
                 "edge_face_connectivity", "edge_node_connectivity"):
        if g.n_face <= 8:
            print(f"   {name} =", getattr(g, name).values.tolist())
    print("   node_lon", np.round(g.node_lon.values, 10).tolist() if g.n_node <= 10 else h(g.node_lon.values))
    print("   node_lat", np.round(g.node_lat.values, 10).tolist() if g.n_node <= 10 else h(g.node_lat.values))
    # derived quantities
    print("   n_nodes_per_face", g.n_nodes_per_face.values.tolist() if g.n_face <= 8 else h(g.n_nodes_per_face.values))
    print("   node_face_connectivity", h(g.node_face_connectivity.values))
    print("   face_areas", h(np.asarray(g.face_areas.values)), repr(float(np.sum(g.face_areas.values))))
    print("   node_x", h(g.node_x.values), "bounds", h(g.bounds.values))


def attempt(tag, fn):
    with warnings.catch_warnings(record=True) as w:
        warnings.simplefilter("always")
        try:
            digest(tag, fn())
        except BaseException as e:  # noqa
            ctx = e.__context__
            print(f"[{tag}] RAISED {type(e).__name__}: {str(e)[:200]!r} "
                  f"context={type(ctx).__name__ if ctx is not None else None}")
        seen = set()
        for x in w:
            key = (x.category.__name__, str(x.message)[:100])
            if key not in seen:
                seen.add(key)
                print(f"   warning {key[0]}: {key[1]!r}")


print("== synthetic ICON grids")
cases = [
    ("octahedron int32 miss0", dict(verts_xyz=OCT_VR, faces=OCT_F)),
    ("octahedron int64 miss-1", dict(verts_xyz=OCT_VR, faces=OCT_F, conn_dtype=np.int64, missing=-1)),
    ("octahedron float64 conn 0..2pi", dict(verts_xyz=OCT_VR, faces=OCT_F, conn_dtype=np.float64, lon_0_2pi=True)),
    ("octahedron axis aligned (poles)", dict(verts_xyz=OCT_V, faces=OCT_F)),
    ("octahedron float32 coords", dict(verts_xyz=OCT_VR, faces=OCT_F, coord_dtype=np.float32)),
    ("half octahedron (partial, boundary) miss0", dict(verts_xyz=OCT_VR, faces=OCT_F[:4])),
    ("half octahedron miss-1", dict(verts_xyz=OCT_VR, faces=OCT_F[:4], missing=-1, conn_dtype=np.int64)),
    ("half octahedron miss-999 int16", dict(verts_xyz=OCT_VR, faces=OCT_F[:4], missing=-999, conn_dtype=np.int16)),
    ("three faces, nv padded to 5", dict(verts_xyz=OCT_VR, faces=OCT_F[:3], nv=5)),
    ("single face", dict(verts_xyz=OCT_VR, faces=OCT_F[:1])),
    ("mixed cube quads+tris miss0", dict(verts_xyz=CUBE_V, faces=CUBE_F)),
    ("mixed cube miss-1 0..2pi", dict(verts_xyz=CUBE_V, faces=CUBE_F, missing=-1, lon_0_2pi=True)),
    ("antimeridian patch 6/4/4/3-gons", dict(verts_xyz=PATCH_V, faces=PATCH_F)),
    ("antimeridian patch 0..2pi int64", dict(verts_xyz=PATCH_V, faces=PATCH_F, lon_0_2pi=True, conn_dtype=np.int64)),
    ("no extras", dict(verts_xyz=OCT_VR, faces=OCT_F, extra=False)),
]
for tag, kw in cases:
    ds = build_icon(**kw)
    print("parse type:", _parse_grid_type(ds))
    attempt(tag + " | open_grid(ds)", lambda: ux.open_grid(ds))

# through a netCDF file and with xarray keyword arguments
for tag, kw in cases[:2] + cases[10:11]:
    ds = build_icon(**kw)
    pth = os.path.join(TMPD, tag.replace(" ", "_").replace("/", "_").replace("+", "_") + ".nc")
    ds.to_netcdf(pth)
    attempt(tag + " | open_grid(path)", lambda: ux.open_grid(pth))
    attempt(tag + " | open_grid(path, decode_cf=False)", lambda: ux.open_grid(pth, decode_cf=False))
    attempt(tag + " | Grid.from_dataset", lambda: ux.Grid.from_dataset(xr.open_dataset(pth)))

# larger pseudo-random triangulated sphere (subdivided octahedron)
def subdivide(verts, faces, n):
    verts = [tuple(v) for v in verts]
    for _ in range(n):
        cache = {}
        new_faces = []

        def mid(a, b):
            key = (min(a, b), max(a, b))
            if key not in cache:
                m = (np.array(verts[a]) + np.array(verts[b])) / 2
                m = m / np.linalg.norm(m)
                verts.append(tuple(m))
                cache[key] = len(verts) - 1
            return cache[key]

        for a, b, c in faces:
            ab, bc, ca = mid(a, b), mid(b, c), mid(c, a)
            new_faces += [[a, ab, ca], [ab, b, bc], [ca, bc, c], [ab, bc, ca]]
        faces = new_faces
    return verts, faces


bv, bf = subdivide(OCT_VR, OCT_F, 3)
big = build_icon(bv, bf, conn_dtype=np.int32)
attempt("subdivided octahedron 512 faces", lambda: ux.open_grid(big))
part = build_icon(bv, [f for f in bf if np.mean([bv[i][2] for i in f]) > 0.1], missing=-1, lon_0_2pi=True)
attempt("northern cap of subdivided octahedron, miss-1", lambda: ux.open_grid(part))

# ---------------------------------------------------------------------------
# 3. _read_icon / _primal_to_ugrid called directly; errors
# ---------------------------------------------------------------------------
print("== direct calls and errors")
ds = build_icon(OCT_VR, OCT_F[:4])
snapshot = {k: np.array(v.values, copy=True) for k, v in ds.variables.items()}
out, dims_dict = _read_icon(ds)
print("returned types:", type(out).__name__, type(dims_dict).__name__, dims_dict)
print("out var order:", list(out.variables), "coords:", list(out.coords), "dims:", dict(out.sizes))
for k in out.variables:
    print("  ", k, out[k].dims, h(out[k].values), dict(out[k].attrs))
print("input dataset untouched:", all(np.array_equal(snapshot[k], ds[k].values) for k in snapshot),
      "dims", dict(ds.sizes))
print("outputs alias inputs:", [bool(np.shares_memory(out[o].values, ds[i].values)) for o, i in
                                [("face_node_connectivity", "vertex_of_cell"),
                                 ("edge_node_connectivity", "edge_vertices")]])
print("attrs are ugrid convention dicts (equal):",
      dict(out["face_node_connectivity"].attrs) == dict(ux.conventions.ugrid.FACE_NODE_CONNECTIVITY_ATTRS))
print("convention dicts unchanged:", ux.conventions.ugrid.FACE_NODE_CONNECTIVITY_ATTRS,
      ux.conventions.ugrid.NODE_LON_ATTRS, ux.conventions.ugrid.EDGE_FACE_CONNECTIVITY_DIMS)

pre = xr.Dataset({"already": ("q", np.arange(2))})
out2, _ = _primal_to_ugrid(ds, pre)
print("_primal_to_ugrid returns same out_ds object:", out2 is pre, list(out2.variables))

for args, kwargs in [((ds,), {"use_dual": True}), ((ds, True), {}), ((ds, 1), {}), ((ds, 0), {}), ((ds, None), {})]:
    try:
        r = _read_icon(*args, **kwargs)
        print("read_icon", args[1:], kwargs, "->", list(r[0].variables)[:3])
    except BaseException as e:  # noqa
        print("read_icon", args[1:], kwargs, "RAISED", type(e).__name__, str(e))
attempt("open_grid use_dual=True", lambda: ux.open_grid(ds, use_dual=True))

# missing variables: which KeyError comes first
order = ["vlon", "vlat", "elon", "elat", "clon", "clat", "edge_of_cell", "neighbor_cell_index",
         "adjacent_cell_of_edge", "edge_vertices"]
for drop in [[n] for n in order] + [["vlat", "elon"], ["edge_vertices", "clat"], ["neighbor_cell_index", "edge_of_cell"],
                                     order]:
    try:
        _read_icon(ds.drop_vars(drop))
        print("drop", drop, "-> ok")
    except BaseException as e:  # noqa
        print("drop", drop, "RAISED", type(e).__name__, str(e)[:80])
# missing dimensions in the source (rename_dims fails first)
for ren in [{"vertex": "v"}, {"edge": "e"}, {"cell": "c"}]:
    try:
        _read_icon(ds.rename_dims(ren))
        print("rename", ren, "-> ok")
    except BaseException as e:  # noqa
        print("rename", ren, "RAISED", type(e).__name__, str(e)[:100])
# wrong-shaped connectivity
bad = ds.copy()
bad["edge_vertices"] = xr.DataArray(np.ones((3, ds.sizes["edge"]), dtype=np.int32), dims=["three", "edge"])
attempt("edge_vertices with 3 rows", lambda: ux.open_grid(bad))
bad = ds.copy()
bad["vertex_of_cell"] = xr.DataArray(ds["vertex_of_cell"].values.T, dims=["cell", "nv"])
attempt("vertex_of_cell not transposed", lambda: ux.open_grid(bad))

# ---------------------------------------------------------------------------
# 4. other readers use the same constants
# ---------------------------------------------------------------------------
print("== other formats (constants)")
for p in ["ugrid/quad-hexagon/grid.nc", "mpas/QU/mesh.QU.1920km.151026.nc", "scrip/outCSne8/outCSne8.nc",
          "exodus/mixed/mixed.exo", "esmf/ne30/ne30pg3.grid.nc", "geos-cs/c12/test-c12.native.nc4"]:
    g = ux.open_grid(os.path.join(MESH, p))
    fnc = g.face_node_connectivity
    print(p, g.n_face, g.n_node, h(fnc.values), fnc.attrs.get("_FillValue"),
          int((fnc.values == INT_FILL_VALUE).sum()), h(g.node_lon.values), h(g.node_lat.values),
          h(g.edge_node_connectivity.values), repr(float(g.face_areas.sum())))

topo = {"node_lon": np.array([-10.0, 10.0, 10.0, -10.0, 0.0]), "node_lat": np.array([-10.0, -10.0, 10.0, 10.0, 25.0]),
        "face_node_connectivity": np.array([[0, 1, 2, 3], [3, 2, 4, -1]]), "fill_value": -1}
g = ux.open_grid(topo)
print("topology", g.face_node_connectivity.values.tolist(), g.face_node_connectivity.dtype,
      h(g.face_areas.values), h(g.bounds.values))

import shutil

shutil.rmtree(TMPD, ignore_errors=True)
