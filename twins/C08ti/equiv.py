import sys, os

sys.path.insert(0, os.getcwd())
import hashlib
import warnings

import numpy as np

import uxarray
import uxarray as ux

assert os.path.abspath(uxarray.__file__).startswith(os.path.abspath(os.getcwd()) + os.sep), uxarray.__file__

warnings.filterwarnings("ignore")

M = os.path.join(os.getcwd(), "test", "meshfiles")
FILES = {
    "quadhex": os.path.join(M, "ugrid", "quad-hexagon", "grid.nc"),  # mixed face sizes + fill values
    "geoflow": os.path.join(M, "ugrid", "geoflow-small", "grid.nc"),
    "csne30": os.path.join(M, "ugrid", "outCSne30", "outCSne30.ug"),
    "mixed_exo": os.path.join(M, "exodus", "mixed", "mixed.exo"),  # triangles + quads
    "csne8_exo": os.path.join(M, "exodus", "outCSne8", "outCSne8.g"),
    "mpas": os.path.join(M, "mpas", "QU", "mesh.QU.1920km.151026.nc"),
    "scrip": os.path.join(M, "scrip", "outCSne8", "outCSne8.nc"),
}


def dig(a):
    a = np.asarray(a)
    return "%s %s %s" % (
        a.dtype,
        a.shape,
        hashlib.sha256(np.ascontiguousarray(a).tobytes()).hexdigest()[:20],
    )


def show(tag, fn):
    try:
        r = fn()
    except Exception as e:  # same exceptions expected
        print(tag, "EXC", type(e).__name__, str(e)[:200])
        return None
    print(tag, r)
    return r


def areas(g, *a, **k):
    ar, jac = g.compute_face_areas(*a, **k)
    same = (ar is g._face_areas, jac is g._face_jacobian)
    return "areas[%s] jac[%s] cached_is_returned=%s sum=%r" % (
        dig(ar),
        dig(jac),
        same,
        float(np.sum(ar)),
    )


ARGS = [
    ((), {}),
    (("gaussian", 4), {}),
    (("triangular", 2), {}),
    (("gaussian", 7), {"latlon": False}),
    ((), {"latlon": False}),
    ((), {"quadrature_rule": "triangular", "order": 1, "latlon": True}),
]

for name, path in FILES.items():
    for use_dual in ([False, True] if name == "mpas" else [False]):
        kw = {"use_dual": True} if use_dual else {}
        g = ux.open_grid(path, **kw)
        tag = name + ("_dual" if use_dual else "")
        before = sorted(g._ds.variables)
        show(tag + " face_areas(prop,first)", lambda: dig(g.face_areas.values))
        for a, k in ARGS:
            show("%s compute%r%r" % (tag, a, sorted(k.items())), lambda: areas(g, *a, **k))
        show(tag + " face_areas(prop,after)", lambda: dig(g.face_areas.values))
        show(tag + " face_jacobian", lambda: dig(g.face_jacobian))
        show(tag + " node_lon", lambda: dig(g.node_lon.values))
        show(tag + " node_x", lambda: dig(g.node_x.values))
        show(tag + " fnc", lambda: dig(g.face_node_connectivity.values))
        show(tag + " newvars", lambda: sorted(set(g._ds.variables) - set(before)))
        # history independence: fresh grid, different order
        g2 = ux.open_grid(path, **kw)
        show(tag + " fresh compute cart first", lambda: areas(g2, latlon=False))
        show(tag + " fresh compute default", lambda: areas(g2))
        show(tag + " fresh face_areas", lambda: dig(g2.face_areas.values))
        show(tag + " calc_total", lambda: repr(g2.calculate_total_face_area()))
        show(tag + " calc_total gaussian", lambda: repr(g2.calculate_total_face_area("gaussian", 5)))
        show(tag + " export vars", lambda: sorted(g2.to_xarray().variables))

# integer-valued coordinates: triggers the astype(float) branch
for lon_dtype, lat_dtype in [
    (np.int64, np.int64),
    (np.int32, np.float64),
    (np.float32, np.int16),
    (np.float64, np.float64),
    (np.float32, np.float32),
]:
    node_lon = np.array([0, 10, 10, 0, 20, 25, 20], dtype=lon_dtype)
    node_lat = np.array([0, 0, 10, 10, 0, 5, 10], dtype=lat_dtype)
    fnc = np.array([[0, 1, 2, 3, -1], [1, 4, 5, 6, 2]])
    tag = "topo[%s,%s]" % (np.dtype(lon_dtype).name, np.dtype(lat_dtype).name)
    g = show(
        tag + " build",
        lambda: ux.Grid.from_topology(node_lon, node_lat, fnc, fill_value=-1),
    )
    if g is None or isinstance(g, str):
        continue
    for a, k in ARGS:
        show("%s compute%r%r" % (tag, a, sorted(k.items())), lambda: areas(g, *a, **k))
    show(tag + " node_lon stored", lambda: dig(g.node_lon.values))
    show(tag + " node_lat stored", lambda: dig(g.node_lat.values))
    show(tag + " input lon untouched", lambda: dig(node_lon))
    show(tag + " face_areas", lambda: dig(g.face_areas.values))

# clockwise (negative orientation) face and degenerate inputs
g = ux.Grid.from_topology(
    np.array([0.0, 0.0, 10.0, 10.0]),
    np.array([0.0, 10.0, 10.0, 0.0]),
    np.array([[0, 1, 2, 3]]),
    fill_value=-1,
)
show("clockwise compute", lambda: areas(g))
show("clockwise compute cart", lambda: areas(g, latlon=False))
show("clockwise cached jac", lambda: dig(g._face_jacobian))
show("clockwise bad rule", lambda: areas(g, "nonsense", 3))

# chunked (dask-backed) grid
g = ux.open_grid(FILES["quadhex"])
show("chunk", lambda: type(g.chunk(n_node=2)).__name__)
show("chunked compute", lambda: areas(g))
show("chunked compute cart", lambda: areas(g, latlon=False))

# empty grid
show(
    "empty",
    lambda: areas(
        ux.Grid.from_topology(
            np.array([], dtype=float), np.array([], dtype=float), np.zeros((0, 3), dtype=int), fill_value=-1
        )
    ),
)

# module constants untouched
from uxarray.conventions import descriptors, ugrid
import uxarray.constants as C

print("FACE_AREAS_ATTRS", descriptors.FACE_AREAS_ATTRS, descriptors.FACE_AREAS_DIMS)
print("NODE_LON_ATTRS", ugrid.NODE_LON_ATTRS)
print("consts", C.INT_DTYPE, C.INT_FILL_VALUE, C.ERROR_TOLERANCE)
