import sys, os; sys.path.insert(0, os.getcwd())
import hashlib, warnings
import numpy as np
import matplotlib
matplotlib.use("Agg")
import cartopy.crs as ccrs
import uxarray as ux
from uxarray.utils.numba_settings import enable_jit, disable_jit
assert os.path.abspath(ux.__file__).startswith(os.path.abspath(os.getcwd()) + os.sep), ux.__file__

GRIDS = {
    "mixed": "test/meshfiles/exodus/mixed/mixed.exo",
    "quadhex": "test/meshfiles/ugrid/quad-hexagon/grid.nc",
    "mpas": "test/meshfiles/mpas/QU/mesh.QU.1920km.151026.nc",
    "geoflow": "test/meshfiles/ugrid/geoflow-small/grid.nc",
    "ne30": "test/meshfiles/ugrid/outCSne30/outCSne30.ug",
}

def h(a):
    a = np.ascontiguousarray(np.asarray(a))
    return f"{a.dtype}{a.shape}:{hashlib.sha1(a.tobytes()).hexdigest()[:12]}"

def dig(x):
    if x is None:
        return "None"
    if isinstance(x, tuple):
        return "(" + ", ".join(dig(i) for i in x) + ")"
    mod = type(x).__module__
    name = type(x).__name__
    if name == "GeoDataFrame":
        geom = x["geometry"]
        if mod.startswith("spatialpandas"):
            arr = geom.values
            return f"sp.GeoDataFrame[n={len(x)}, {type(arr).__name__}, buf={h(arr.buffer_values)}]"
        wkb = b"".join(geom.to_wkb().tolist())
        return f"gpd.GeoDataFrame[n={len(x)}, wkb={hashlib.sha1(wkb).hexdigest()[:12]}]"
    if name in ("PolyCollection", "LineCollection"):
        paths = x.get_paths()
        verts = np.concatenate([p.vertices for p in paths]) if paths else np.zeros((0, 2))
        return f"{name}[n={len(paths)}, verts={h(verts)}, lw={x.get_linewidth()!r}]"
    return h(x)

def cache_state(g):
    out = []
    for attr, objkey in (("_gdf_cached_parameters", "gdf"), ("_poly_collection_cached_parameters", "poly_collection"),
                         ("_line_collection_cached_parameters", "line_collection")):
        d = getattr(g, attr)
        parts = []
        for k, v in d.items():
            if isinstance(v, (str, bool, type(None))):
                parts.append(f"{k}={v!r}")
            elif isinstance(v, ccrs.Projection):
                parts.append(f"{k}={type(v).__name__}")
            else:
                parts.append(f"{k}={dig(v)}")
        out.append(attr + "{" + ", ".join(parts) + "}")
    return "\n        ".join(out)

ROBIN = ccrs.Robinson()
ORTHO = ccrs.Orthographic(central_longitude=30.0, central_latitude=20.0)
ORTHO2 = ccrs.Orthographic(central_longitude=30.0, central_latitude=20.0)  # equal, not identical

CALLS = [
    ("gdf", {}),
    ("gdf", {}),
    ("gdf", {"return_non_nan_polygon_indices": True}),
    ("gdf", {"periodic_elements": "split"}),
    ("gdf", {"periodic_elements": "split", "cache": False}),
    ("gdf", {"periodic_elements": "ignore", "cache": False}),
    ("gdf", {"periodic_elements": "split"}),
    ("gdf", {"periodic_elements": "split", "override": True}),
    ("gdf", {"engine": "geopandas"}),
    ("gdf", {"engine": "geopandas", "return_non_nan_polygon_indices": True}),
    ("gdf", {"engine": "bogus"}),
    ("gdf", {"periodic_elements": "bogus"}),
    ("gdf", {"projection": ORTHO, "periodic_elements": "split"}),
    ("gdf", {"projection": ORTHO}),
    ("gdf", {"projection": ORTHO2}),
    ("gdf", {"projection": ORTHO, "project": False}),
    ("gdf", {"projection": ORTHO, "project": False, "periodic_elements": "split"}),
    ("gdf", {"projection": ORTHO, "exclude_nan_polygons": False, "return_non_nan_polygon_indices": True}),
    ("gdf", {"projection": ORTHO, "exclude_nan_polygons": True, "return_non_nan_polygon_indices": True}),
    ("gdf", {"projection": ROBIN}),
    ("gdf", {"exclude_antimeridian": True}),
    ("gdf", {"exclude_antimeridian": False}),
    ("gdf", {"periodic_elements": "ignore"}),
    ("poly", {}),
    ("poly", {}),
    ("poly", {"return_indices": True}),
    ("poly", {"periodic_elements": "split"}),
    ("poly", {"periodic_elements": "split", "return_indices": True}),
    ("poly", {"periodic_elements": "ignore", "cache": False, "return_indices": True}),
    ("poly", {"periodic_elements": "split", "return_indices": True}),
    ("poly", {"periodic_elements": "split", "override": True}),
    ("poly", {"periodic_elements": "bogus"}),
    ("poly", {"projection": ORTHO, "return_indices": True}),
    ("poly", {"projection": ORTHO2, "return_indices": True}),
    ("poly", {"projection": ORTHO, "periodic_elements": "split"}),
    ("poly", {"projection": ROBIN}),
    ("poly", {"linewidths": 3.0}),
    ("poly", {"linewidths": 3.0, "return_indices": True}),
    ("poly", {}),
    ("poly", {"periodic_elements": "ignore"}),
    ("line", {}),
    ("line", {"periodic_elements": "split"}),
    ("line", {"projection": ORTHO}),
    ("gdf", {}),
    ("poly", {"return_indices": True}),
]

METHODS = {"gdf": "to_geodataframe", "poly": "to_polycollection", "line": "to_linecollection"}

for jit in (True, False):
    (enable_jit if jit else disable_jit)()
    print("=== JIT", jit)
    grids = {n: ux.open_grid(p) for n, p in GRIDS.items()}
    if not jit:
        # keep the JIT-off pass short: the two small grids with mixed face sizes
        grids = {n: grids[n] for n in ("mixed", "quadhex")}
    last = {}
    for i, (kind, kw) in enumerate(CALLS):
        for name, g in grids.items():
            shown = {k: (type(v).__name__ if isinstance(v, ccrs.Projection) else v) for k, v in kw.items()}
            label = f"[{name}] #{i} {METHODS[kind]}({shown})"
            with warnings.catch_warnings(record=True) as w:
                warnings.simplefilter("always")
                try:
                    r = getattr(g, METHODS[kind])(**kw)
                    print(label, "->", dig(r))
                    main = r[0] if isinstance(r, tuple) else r
                    objkey = {"gdf": "gdf", "poly": "poly_collection", "line": "line_collection"}[kind]
                    cdict = getattr(g, {"gdf": "_gdf_cached_parameters", "poly": "_poly_collection_cached_parameters",
                                        "line": "_line_collection_cached_parameters"}[kind])
                    print("     returned-is-cached:", main is cdict[objkey],
                          "returned-is-previous:", main is last.get((name, kind)),
                          "cached-is-previous-cached:", cdict[objkey] is last.get((name, kind, "c")))
                    if isinstance(r, tuple) and kind == "gdf":
                        print("     indices-is-cached:", r[1] is cdict["non_nan_polygon_indices"])
                    if isinstance(r, tuple) and kind == "poly":
                        print("     indices-is-cached:", r[1] is cdict["corrected_to_original_faces"])
                    last[(name, kind)] = main
                    last[(name, kind, "c")] = cdict[objkey]
                except Exception as e:
                    print(label, "-> EXC", type(e).__name__, str(e)[:200])
                cats = sorted({f"{x.category.__name__}:{str(x.message)[:60]}" for x in w
                               if issubclass(x.category, DeprecationWarning) and "exclude_antimeridian" in str(x.message)})
                print("     warnings:", cats)
            print("     cache:", cache_state(g))
    for name, g in grids.items():
        print(name, "ds vars:", sorted(g._ds.variables))
        print(name, "antimeridian", dig(g.antimeridian_face_indices), "node_lon", h(g.node_lon.values))
enable_jit()
if os.path.exists("grid_geoflow.exo"):
    os.remove("grid_geoflow.exo")
