import sys, os; sys.path.insert(0, os.getcwd())
import hashlib
import warnings

warnings.filterwarnings("ignore")

import numpy as np
import cartopy.crs as ccrs
import xarray as xr

import uxarray
import uxarray as ux

assert os.path.abspath(uxarray.__file__).startswith(os.path.abspath(os.getcwd()) + os.sep), uxarray.__file__

from uxarray.constants import INT_FILL_VALUE, INT_DTYPE
from uxarray.grid import geometry as geo

np.set_printoptions(precision=17, linewidth=200, threshold=100000)


def h(b):
    return hashlib.sha1(b).hexdigest()[:16]


def arr_digest(a, layout=False):
    if a is None:
        return "None"
    a_np = np.asarray(a)
    s = f"{type(a).__name__} dtype={a_np.dtype} shape={a_np.shape} sha={h(np.ascontiguousarray(a_np).tobytes())}"
    if layout:
        s += f" strides={a_np.strides} C={a_np.flags.c_contiguous} F={a_np.flags.f_contiguous}"
    if a_np.size <= 40:
        s += " " + repr(a_np.tolist())
    return s


def gdf_digest(gdf):
    out = [f"{type(gdf).__module__}.{type(gdf).__name__} cols={list(gdf.columns)} n={len(gdf)} index={h(np.asarray(gdf.index).tobytes())}"]
    geom = gdf["geometry"]
    vals = geom.values
    out.append(f"geomtype={type(vals).__name__}")
    if hasattr(vals, "buffer_values"):
        out.append("buf=" + arr_digest(vals.buffer_values))
        for k in ("buffer_outer_offsets", "buffer_inner_offsets", "buffer_offsets"):
            if hasattr(vals, k):
                o = getattr(vals, k)
                if isinstance(o, tuple):
                    out.append(k + "=" + "|".join(arr_digest(x) for x in o))
                else:
                    out.append(k + "=" + arr_digest(o))
    else:
        import shapely
        wkb = shapely.to_wkb(np.asarray(vals))
        out.append("wkb=" + h(b"".join(wkb)))
        out.append("types=" + h(",".join(g.geom_type for g in vals).encode()))
        out.append("nparts=" + repr([len(getattr(g, "geoms", [g])) for g in vals][:60]))
    for c in gdf.columns:
        if c != "geometry":
            out.append(f"col[{c}]=" + arr_digest(np.asarray(gdf[c])))
    return "\n    ".join(out)


def pc_digest(pc):
    paths = pc.get_paths()
    verts = [np.asarray(p.vertices) for p in paths]
    blob = b"".join(np.ascontiguousarray(v).tobytes() for v in verts)
    lens = [len(v) for v in verts]
    arr = pc.get_array()
    tr = pc.get_transform() if False else getattr(pc, "_transform", None)
    return (f"{type(pc).__name__} npaths={len(paths)} lens={h(repr(lens).encode())} verts={h(blob)} "
            f"vdtype={verts[0].dtype if verts else None} array={arr_digest(None if arr is None else np.asarray(arr))} "
            f"transform={type(tr).__name__}:{getattr(tr, 'proj4_params', None)}")


def lc_digest(lc):
    segs = lc.get_segments()
    blob = b"".join(np.ascontiguousarray(np.asarray(s)).tobytes() for s in segs)
    tr = getattr(lc, "_transform", None)
    return (f"{type(lc).__name__} nseg={len(segs)} lens={h(repr([len(s) for s in segs]).encode())} segs={h(blob)} "
            f"transform={type(tr).__name__}:{getattr(tr, 'proj4_params', None)}")


def cache_digest(grid):
    out = []
    for name in ("_gdf_cached_parameters", "_poly_collection_cached_parameters", "_line_collection_cached_parameters"):
        d = getattr(grid, name)
        items = []
        for k in d:
            v = d[k]
            if v is None or isinstance(v, (str, bool)):
                items.append(f"{k}={v!r}")
            elif isinstance(v, (np.ndarray, list)):
                items.append(f"{k}=" + arr_digest(v))
            elif isinstance(v, ccrs.Projection):
                items.append(f"{k}={type(v).__name__}:{v.proj4_params}")
            else:
                items.append(f"{k}=<{type(v).__name__} id-set>")
        out.append(name + ": " + "; ".join(items))
    out.append("_antimeridian_face_indices attr: " + arr_digest(grid._antimeridian_face_indices))
    return "\n    ".join(out)


def run(label, fn):
    try:
        res = fn()
        print(f"[{label}]\n    {res}")
    except Exception as e:  # noqa
        print(f"[{label}]\n    EXC {type(e).__name__}: {e}")


# --------------------------------------------------------------------------- grids
F = INT_FILL_VALUE


def synthetic_grid():
    node_lon = np.array([160, 170, -170, -160, 160, 170, -170, -160, 165, -175, 175,
                         0, 10, 10, 0, 5, -90, 0, 90, 180, -90, 90, 0, 30, 40, 35], dtype=float)
    node_lat = np.array([0, 0, 0, 0, 10, 10, 10, 10, 20, 20, 25,
                         0, 0, 10, 10, 18, 80, 85, 80, 85, -30, -30, -10, -50, -50, -40], dtype=float)
    conn = np.array([
        [0, 1, 5, 4, F],
        [1, 2, 6, 5, F],      # crosses
        [2, 3, 7, 6, F],
        [4, 5, 8, F, F],
        [5, 6, 9, 10, 8],     # pentagon, crosses
        [11, 12, 13, 14, F],
        [14, 13, 15, F, F],
        [16, 17, 18, 19, F],  # polar, has node at lon 180
        [20, 21, 22, F, F],   # edge spanning exactly 180 degrees
        [23, 24, 25, F, F],
    ], dtype=INT_DTYPE)
    return ux.Grid.from_topology(node_lon, node_lat, conn, fill_value=F)


def no_crossing_grid():
    node_lon = np.array([0, 10, 10, 0, 5, 20, 20], dtype=float)
    node_lat = np.array([0, 0, 10, 10, 18, 0, 10], dtype=float)
    conn = np.array([[0, 1, 2, 3], [3, 2, 4, F], [1, 5, 6, 2]], dtype=INT_DTYPE)
    return ux.Grid.from_topology(node_lon, node_lat, conn, fill_value=F)


def single_face_grid(cross):
    if cross:
        node_lon = np.array([170, -170, 180], dtype=float)
    else:
        node_lon = np.array([10, 20, 15], dtype=float)
    node_lat = np.array([0, 0, 10], dtype=float)
    conn = np.array([[0, 1, 2]], dtype=INT_DTYPE)
    return ux.Grid.from_topology(node_lon, node_lat, conn, fill_value=F)


GRIDS = {
    "synthetic": synthetic_grid,
    "nocross": no_crossing_grid,
    "single_cross": lambda: single_face_grid(True),
    "single_plain": lambda: single_face_grid(False),
    "quadhex": lambda: ux.open_grid("test/meshfiles/ugrid/quad-hexagon/grid.nc"),
    "geoflow": lambda: ux.open_grid("test/meshfiles/ugrid/geoflow-small/grid.nc"),
    "mpas": lambda: ux.open_grid("test/meshfiles/mpas/QU/mesh.QU.1920km.151026.nc"),
}

PROJS = {
    "none": lambda: None,
    "moll0": lambda: ccrs.Mollweide(),
    "mill120": lambda: ccrs.Miller(central_longitude=120),
    "ortho": lambda: ccrs.Orthographic(central_longitude=-90, central_latitude=41),
    "robin30": lambda: ccrs.Robinson(central_longitude=30),
}

# --------------------------------------------------------------------------- 1. low level helpers
print("=== low-level helpers")
for gname, mk in GRIDS.items():
    g = mk()
    fnc = g.face_node_connectivity.values
    nn = g.n_nodes_per_face.values
    run(f"pad {gname}", lambda: arr_digest(geo._pad_closed_face_nodes(fnc, g.n_face, g.n_max_face_nodes, nn), layout=True))
    # non-contiguous / other dtype connectivity
    run(f"pad-noncontig {gname}", lambda: arr_digest(
        geo._pad_closed_face_nodes(np.asfortranarray(fnc), g.n_face, g.n_max_face_nodes, nn), layout=True))
    run(f"pad-fnc-unchanged {gname}", lambda: arr_digest(fnc))
    for pname, mkp in PROJS.items():
        p = mkp()
        for cl in (0.0, 120.0):
            def shells():
                s = geo._build_polygon_shells(g.node_lon.values, g.node_lat.values, fnc, g.n_face,
                                              g.n_max_face_nodes, nn, projection=p, central_longitude=cl)
                return arr_digest(s, layout=True) + f" base_is_none={s.base is None} writeable={s.flags.writeable} nan={int(np.isnan(s).sum())}"
            run(f"shells {gname} {pname} cl={cl}", shells)
    run(f"shells-positional {gname}", lambda: arr_digest(
        geo._build_polygon_shells(g.node_lon.values, g.node_lat.values, fnc, g.n_face, g.n_max_face_nodes, nn), layout=True))
    s0 = geo._build_polygon_shells(g.node_lon.values, g.node_lat.values, fnc, g.n_face, g.n_max_face_nodes, nn)
    run(f"am-build {gname}", lambda: arr_digest(geo._build_antimeridian_face_indices(s0[:, :, 0]), layout=True))
    run(f"am-property {gname}", lambda: arr_digest(g.antimeridian_face_indices, layout=True))
    run(f"am-property-again-same-object {gname}", lambda: g.antimeridian_face_indices is g.antimeridian_face_indices)
    run(f"cache-after-am {gname}", lambda: cache_digest(g))

print("=== antimeridian index builder on hand-made inputs")
for name, x in {
    "two-cross": np.array([[170., -170., -170., 170.], [0., 1., 2., 0.], [-179., 179., 178., -179.]]),
    "none": np.array([[0., 1., 2., 0.], [5., 6., 7., 5.]]),
    "single-row-cross": np.array([[170., -170., 175., 170.]]),
    "single-row-plain": np.array([[17., 1., 5., 17.]]),
    "exact180": np.array([[-90., 90., 0., -90.], [-90., 89.99, 0., -90.]]),
    "float32": np.array([[170., -170., -170., 170.], [0., 1., 2., 0.]], dtype=np.float32),
    "with-nan": np.array([[np.nan, -170., -170., np.nan], [170., -170., np.nan, 170.]]),
    "empty": np.zeros((0, 4)),
    "one-d": np.array([170., -170., 170.]),
    "three-d": np.array([[[170., -170.], [0., 1.]], [[0., 1.], [1., 2.]]]),
}.items():
    run(f"am-build raw {name}", lambda: arr_digest(geo._build_antimeridian_face_indices(x), layout=True))
    run(f"am-build raw {name} proj-kw", lambda: arr_digest(geo._build_antimeridian_face_indices(x, projection=None)))

print("=== shells -> polygons helper")
for name, sh in {
    "plain": np.array([[[0, 0], [1, 0], [1, 1], [0, 0]], [[5, 5], [6, 5], [6, 6], [5, 5]]], dtype=np.float32),
    "nan-rows": np.array([[[0, 0], [1, 0], [np.nan, np.nan], [0, 0]], [[np.nan, 1], [np.nan, 5], [6, 6], [5, 5]]], dtype=np.float32),
    "empty": np.zeros((0, 4, 2), dtype=np.float32),
}.items():
    run(f"convert_shells {name}", lambda: [p.wkt for p in geo._convert_shells_to_polygons(sh)])

# --------------------------------------------------------------------------- 2. grid-level conversions
print("=== Grid conversions, fresh grid per call")
for gname in ("synthetic", "nocross", "single_cross", "single_plain", "quadhex", "geoflow", "mpas"):
    for pe in ("exclude", "split", "ignore", "bogus"):
        for pname in PROJS:
            for engine in ("spatialpandas", "geopandas"):
                for project in (True, False):
                    if gname in ("geoflow", "mpas") and (pname in ("moll0", "robin30") or (engine == "geopandas" and not project)):
                        continue
                    def f():
                        g = GRIDS[gname]()
                        r = g.to_geodataframe(periodic_elements=pe, projection=PROJS[pname](), engine=engine,
                                              project=project, return_non_nan_polygon_indices=True)
                        return gdf_digest(r[0]) + "\n    nonnan=" + arr_digest(r[1]) + "\n    " + cache_digest(g)
                    run(f"gdf {gname} pe={pe} proj={pname} engine={engine} project={project}", f)
            def fpc():
                g = GRIDS[gname]()
                pc, idx = g.to_polycollection(periodic_elements=pe, projection=PROJS[pname](), return_indices=True)
                return pc_digest(pc) + "\n    idx=" + arr_digest(idx) + "\n    " + cache_digest(g)
            run(f"pc {gname} pe={pe} proj={pname}", fpc)
            def flc():
                g = GRIDS[gname]()
                lc = g.to_linecollection(periodic_elements=pe, projection=PROJS[pname]())
                return lc_digest(lc) + "\n    " + cache_digest(g)
            run(f"lc {gname} pe={pe} proj={pname}", flc)

# direct internal entry point (engine values outside the validated set, exclude_nan_polygons False)
print("=== internal entry points")
for gname in ("synthetic", "nocross", "quadhex"):
    for pe in ("exclude", "split", "ignore", "other"):
        for engine in ("geopandas", "spatialpandas", "something-else"):
            for pname in ("none", "ortho", "mill120"):
                for project in (True, False):
                    def f():
                        g = GRIDS[gname]()
                        gdf, nn = geo._grid_to_polygon_geodataframe(g, pe, PROJS[pname](), project, engine)
                        return gdf_digest(gdf) + "\n    nonnan=" + arr_digest(nn) + "\n    " + cache_digest(g)
                    run(f"_grid_to_polygon_geodataframe {gname} pe={pe} engine={engine} proj={pname} project={project}", f)
    def f2():
        g = GRIDS[gname]()
        r = g.to_geodataframe(projection=PROJS["ortho"](), exclude_nan_polygons=False, engine="geopandas")
        return gdf_digest(r)
    run(f"gdf exclude_nan_polygons=False {gname}", f2)
    for ea in (True, False):
        def f3():
            g = GRIDS[gname]()
            r = g.to_geodataframe(exclude_antimeridian=ea, engine="geopandas")
            return gdf_digest(r)
        run(f"gdf exclude_antimeridian={ea} {gname}", f3)

# --------------------------------------------------------------------------- 3. data + call histories
print("=== data arrays and call histories on one grid")


def make_uxda(g, name="t", scale=1.0):
    vals = (np.arange(g.n_face, dtype=float) + 0.25) * scale
    return ux.UxDataArray(xr.DataArray(vals, dims=["n_face"], name=name), uxgrid=g)


for gname in ("synthetic", "nocross", "single_cross", "quadhex", "geoflow", "mpas"):
    g = GRIDS[gname]()
    a = make_uxda(g, "t", 1.0)
    b = make_uxda(g, None, -2.0)
    history = [
        ("gdf", dict(periodic_elements="exclude", engine="geopandas")),
        ("gdf", dict(periodic_elements="exclude", engine="geopandas")),
        ("gdf", dict(periodic_elements="split", engine="spatialpandas")),
        ("gdf", dict(periodic_elements="exclude", projection="ortho", engine="geopandas")),
        ("pc", dict(periodic_elements="exclude", projection="ortho")),
        ("gdf", dict(periodic_elements="exclude", engine="spatialpandas")),
        ("pc", dict(periodic_elements="exclude")),
        ("pc", dict(periodic_elements="split")),
        ("pc", dict(periodic_elements="split", cache=False)),
        ("pc", dict(periodic_elements="ignore", override=True)),
        ("gdf", dict(periodic_elements="ignore", projection="mill120", engine="geopandas", project=False)),
        ("gdf", dict(periodic_elements="ignore", projection="mill120", engine="geopandas")),
        ("gdf", dict(periodic_elements="split", projection="mill120", engine="geopandas")),
        ("gdf", dict(periodic_elements="exclude", cache=False, engine="geopandas")),
        ("gdf", dict(periodic_elements="exclude", override=True, engine="spatialpandas")),
        ("pc", dict(periodic_elements="exclude", projection="robin30")),
        ("pc", dict(periodic_elements="split", projection="robin30")),
        ("pc", dict(periodic_elements="exclude")),
        ("lc", dict(periodic_elements="split", projection="mill120")),
        ("lc", dict(periodic_elements="exclude", projection="ortho")),
        ("lc", dict(periodic_elements="exclude")),
        ("lc", dict(periodic_elements="ignore", linewidths=0.5)),
        ("am", {}),
    ]
    kept = []
    for step, (kind, kw) in enumerate(history):
        kw = dict(kw)
        if "projection" in kw:
            kw["projection"] = PROJS[kw["projection"]]()
        for who, da in (("a", a), ("b", b)):
            def f():
                if kind == "gdf":
                    r = da.to_geodataframe(**kw)
                    kept.append((step, who, "gdf", r, gdf_digest(r)))
                    return gdf_digest(r)
                if kind == "pc":
                    r, idx = da.to_polycollection(return_indices=True, **kw)
                    kept.append((step, who, "pc", r, pc_digest(r)))
                    return pc_digest(r) + "\n    idx=" + arr_digest(idx)
                if kind == "lc":
                    r = g.to_linecollection(**kw)
                    kept.append((step, who, "lc", r, lc_digest(r)))
                    return lc_digest(r)
                return arr_digest(g.antimeridian_face_indices)
            run(f"hist {gname} step={step} {kind} {who} {history[step][1]}", f)
        run(f"hist {gname} step={step} cache", lambda: cache_digest(g))
    # objects returned earlier must not have been altered by later conversions
    for step, who, kind, obj, dig in kept:
        now = {"gdf": gdf_digest, "pc": pc_digest, "lc": lc_digest}[kind](obj)
        print(f"[unaltered {gname} step={step} {who} {kind}] {now == dig}")

# error paths on data arrays
print("=== error paths")
g = synthetic_grid()
node_da = ux.UxDataArray(xr.DataArray(np.arange(g.n_node, dtype=float), dims=["n_node"], name="n"), uxgrid=g)
run("node-centred gdf", lambda: gdf_digest(node_da.to_geodataframe()))
run("node-centred pc", lambda: pc_digest(node_da.to_polycollection()))
run("bad engine", lambda: gdf_digest(g.to_geodataframe(engine="nope")))
run("split+projection gdf", lambda: gdf_digest(g.to_geodataframe(periodic_elements="split", projection=ccrs.Robinson())))
run("split+projection pc", lambda: pc_digest(g.to_polycollection(periodic_elements="split", projection=ccrs.Robinson())))
run("PlateCarree projection gdf", lambda: gdf_digest(g.to_geodataframe(projection=ccrs.PlateCarree(central_longitude=120))))
run("PlateCarree projection pc", lambda: pc_digest(g.to_polycollection(projection=ccrs.PlateCarree())))
run("PlateCarree projection lc", lambda: lc_digest(g.to_linecollection(projection=ccrs.PlateCarree())))
run("cache after errors", lambda: cache_digest(g))
print("done")
