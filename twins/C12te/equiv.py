import sys, os; sys.path.insert(0, os.getcwd())
import hashlib
import warnings
import numpy as np
import uxarray as ux
assert os.path.abspath(ux.__file__).startswith(os.path.abspath(os.getcwd()) + os.sep), ux.__file__

warnings.simplefilter("ignore")

MESH = os.path.join(os.getcwd(), "test", "meshfiles")
KINDS = ["nodes", "edge centers", "face centers"]
DIM = {"nodes": "n_node", "edge centers": "n_edge", "face centers": "n_face"}


def digest(a):
    a = np.ascontiguousarray(np.asarray(a))
    return f"{a.dtype} {a.shape} {hashlib.sha256(a.tobytes()).hexdigest()[:16]}"


def make_grids():
    out = {}
    out["mixed"] = lambda: ux.open_grid(os.path.join(MESH, "exodus", "mixed", "mixed.exo"))
    out["mpas"] = lambda: ux.open_grid(os.path.join(MESH, "mpas", "QU", "mesh.QU.1920km.151026.nc"))
    lon = np.array([0.0, 120.0, -120.0, 10.0])
    lat = np.array([-20.0, -25.0, -15.0, 80.0])
    tet = np.array([[0, 1, 2], [0, 3, 1], [1, 3, 2], [2, 3, 0]])
    out["tet"] = lambda: ux.Grid.from_topology(lon, lat, tet)
    lon2 = np.array([0.0, 10.0, 10.0, 0.0, 20.0, 5.0])
    lat2 = np.array([0.0, 0.0, 10.0, 10.0, 5.0, 20.0])
    fn = np.array([[0, 1, 2, 3], [1, 4, 2, -1], [3, 2, 5, -1]])
    out["patch"] = lambda: ux.Grid.from_topology(lon2, lat2, fn, fill_value=-1)
    return out


class Tracker:
    """Gives stable small labels to objects so identity patterns can be printed."""

    def __init__(self):
        self.seen = []

    def label(self, obj):
        if obj is None:
            return None
        for i, o in enumerate(self.seen):
            if o is obj:
                return i
        self.seen.append(obj)
        return len(self.seen) - 1


def tree_state(grid, tree, tr, which):
    cached = grid._ball_tree if which == "ball" else grid._kd_tree
    return dict(
        obj=tr.label(tree), is_cached=tree is cached, cls=type(tree).__name__,
        coords=tree._coordinates, system=tree.coordinate_system, metric=tree.distance_metric,
        recon=tree.reconstruct, n=tree._n_elements,
        inner=(tr.label(tree._tree_from_nodes), tr.label(tree._tree_from_face_centers),
               tr.label(tree._tree_from_edge_centers)),
    )


def query_digest(tree):
    if tree.coordinate_system == "spherical":
        pts = np.array([[0.0, 0.0], [10.0, 45.0], [-170.0, -80.0], [179.0, 89.0]])
    else:
        pts = np.array([[1.0, 0.0, 0.0], [0.0, 1.0, 0.0], [0.0, 0.0, -1.0], [0.6, 0.0, 0.8]])
    k = min(3, tree._n_elements)
    d, ind = tree.query(pts, k=k)
    return digest(d), digest(ind)


CALLS = [
    dict(),
    dict(),
    dict(coordinates="face centers"),
    dict(coordinates="face centers"),
    dict(coordinates="edge centers"),
    dict(coordinates="nodes"),
    dict(coordinates="nodes", reconstruct=True),
    dict(coordinates="face centers"),
    dict(coordinates="face centers", coordinate_system="cartesian", distance_metric="minkowski"),
    dict(coordinates="edge centers", coordinate_system="cartesian", distance_metric="minkowski"),
    dict(coordinates="edge centers", coordinate_system="cartesian", distance_metric="euclidean"),
    dict(coordinates="nodes", coordinate_system="spherical", distance_metric="haversine"),
    dict(coordinates="bogus"),
    dict(coordinates="nodes"),
    dict(coordinates="bogus", reconstruct=True),
    dict(coordinates="face centers", reconstruct=True),
    dict(coordinates="face centers", reconstruct=False),
    dict(coordinates="edge centers", reconstruct=True, coordinate_system="cartesian", distance_metric="minkowski"),
    dict(coordinates="edge centers", coordinate_system="cartesian", distance_metric="minkowski"),
    dict(coordinates="nodes", coordinate_system="cartesian", distance_metric="minkowski"),
    dict(coordinates="nodes", coordinate_system="polar", distance_metric="minkowski"),
    dict(coordinates="face centers", coordinate_system="polar", distance_metric="minkowski"),
    dict(coordinates="face centers"),
]


def cache_sequences(G):
    for gname in ["tet", "patch", "mixed", "mpas"]:
        for which in ["ball", "kd"]:
            grid = G[gname]()
            tr = Tracker()
            getter = grid.get_ball_tree if which == "ball" else grid.get_kd_tree
            for i, kw in enumerate(CALLS):
                tag = f"{gname} {which} #{i} {kw}"
                before = tr.label(grid._ball_tree if which == "ball" else grid._kd_tree)
                try:
                    tree = getter(**kw)
                except Exception as e:
                    after = grid._ball_tree if which == "ball" else grid._kd_tree
                    print(tag, "-> EXC", type(e).__name__, str(e)[:100], "cached before/after:",
                          before, tr.label(after),
                          None if after is None else (after._coordinates, after._n_elements))
                    continue
                st = tree_state(grid, tree, tr, which)
                try:
                    q = query_digest(tree)
                except Exception as e:
                    q = ("EXC", type(e).__name__, str(e)[:80])
                print(tag, "->", before, st, q)
            # positional calls as well
            for args in [("nodes",), ("face centers", "cartesian", "minkowski"), ("face centers", "cartesian", "minkowski", True),
                         ("edge centers", "spherical", "haversine", False)]:
                try:
                    tree = getter(*args)
                    print(f"{gname} {which} positional {args} ->", tree_state(grid, tree, tr, which), query_digest(tree))
                except Exception as e:
                    print(f"{gname} {which} positional {args} -> EXC", type(e).__name__, str(e)[:100])


def field(grid, kind, lead):
    n = {"nodes": grid.n_node, "edge centers": grid.n_edge, "face centers": grid.n_face}[kind]
    rng = np.random.default_rng(n + 7 * len(lead))
    data = rng.normal(size=tuple(lead) + (n,))
    dims = [f"lead{i}" for i in range(len(lead))] + [DIM[kind]]
    return ux.UxDataArray(data, dims=dims, uxgrid=grid, name=f"v_{DIM[kind]}")


def remaps(G):
    # remaps interleaved on the SAME source grid object, so that the tree cache is exercised
    for sname, dname in [("mixed", "mpas"), ("mpas", "patch"), ("tet", "tet"), ("patch", "mixed")]:
        src = G[sname]()
        dest = src if sname == dname else G[dname]()
        tr = Tracker()
        for src_kind in KINDS:
            for lead in [(), (2,)]:
                da = field(src, src_kind, lead)
                for remap_to in KINDS:
                    for coord_type in ["spherical", "cartesian"]:
                        tag = f"{sname}>{dname} {src_kind}{lead}>{remap_to} {coord_type}"
                        try:
                            r = da.remap.nearest_neighbor(dest, remap_to, coord_type)
                            print("NN ", tag, r.dims, digest(r.values), r.uxgrid is dest,
                                  tree_state(src, src._ball_tree, tr, "ball"))
                        except Exception as e:
                            print("NN ", tag, "EXC", type(e).__name__, str(e)[:100])
                        try:
                            r = da.remap.inverse_distance_weighted(dest, remap_to, coord_type, 2, 3)
                            print("IDW", tag, r.dims, digest(r.values), r.uxgrid is dest,
                                  tree_state(src, src._ball_tree, tr, "ball"))
                        except Exception as e:
                            print("IDW", tag, "EXC", type(e).__name__, str(e)[:100])
        # a user-held tree between remaps
        t = src.get_ball_tree("nodes")
        print(sname, "user tree after remaps", tree_state(src, t, tr, "ball"), query_digest(t))


def subsets(G):
    grid = G["mixed"]()
    for element in ["nodes", "edge centers", "face centers"]:
        for tree_type in (["nodes", "edge centers", "face centers"]):
            try:
                sub = grid.subset.nearest_neighbor((10.0, 20.0), k=4, element=tree_type)
                print("subset nn", tree_type, sub.n_node, sub.n_face, digest(sub.node_lon.values))
            except Exception as e:
                print("subset nn", tree_type, "EXC", type(e).__name__, str(e)[:100])
            try:
                sub = grid.subset.bounding_circle((10.0, 20.0), 25.0, element=tree_type)
                print("subset circle", tree_type, sub.n_node, sub.n_face, digest(sub.node_lon.values))
            except Exception as e:
                print("subset circle", tree_type, "EXC", type(e).__name__, str(e)[:100])
        break


G = make_grids()
cache_sequences(G)
remaps(G)
subsets(G)
