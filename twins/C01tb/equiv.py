import sys, os

sys.path.insert(0, os.getcwd())
import hashlib
import itertools
import warnings
import numpy as np
import xarray as xr
import uxarray
import uxarray as ux

assert os.path.abspath(uxarray.__file__).startswith(os.path.abspath(os.getcwd()) + os.sep), uxarray.__file__

from uxarray.io._ugrid import _read_ugrid
from uxarray.constants import INT_DTYPE, INT_FILL_VALUE

warnings.simplefilter("ignore")
np.set_printoptions(threshold=sys.maxsize, precision=17, linewidth=200)

# mixed mesh: 3..8-gons, nodes on both sides of the antimeridian and next to the poles
lon = np.array([350.0, 10.0, 0.0, 20.0, 15.0, 30.0, 40.0, 25.0, 179.0, 181.0, 200.0, 359.5])
lat = np.array([-5.0, -5.0, 5.0, -4.0, 6.0, -3.0, 2.0, 9.0, 88.0, 89.0, -89.5, -90.0])
faces = [[0, 1, 2], [2, 1, 3, 4], [4, 3, 5, 6, 7], [8, 9, 10, 11, 0, 1], [7, 6, 5, 3, 1, 0, 2], [0, 1, 3, 5, 6, 7, 4, 2]]
edges = [[0, 1], [1, 2], [2, 0], [1, 3], [3, 4], [4, 2], [3, 5], [5, 6], [6, 7], [7, 4]]
W = 8


def padded(rows, width, fill, base, dtype):
    out = np.full((len(rows), width), fill, dtype=np.float64)
    for i, f in enumerate(rows):
        out[i, : len(f)] = np.array(f) + base
    return out.astype(dtype)


def make_ds(
    fill=-1,
    base=0,
    dtype=np.int32,
    names=("mesh", "vx", "vy", "fn", "nv", "nc", "mx"),
    node_dim_attr=False,
    face_dim_attr=False,
    edge_dim_attr=False,
    edge_coords=False,
    face_coords=False,
    edge_conn=None,  # None | "attr" | "cf_role"
    face_edge=False,
    fn_by="attr",  # "attr" | "cf_role" | "both"
    lon360=True,
    transposed_coords=False,
):
    mesh, vx, vy, fn, nv, nc, mx = names
    ds = xr.Dataset()
    attrs = {"cf_role": "mesh_topology", "topology_dimension": 2, "node_coordinates": f"{vx} {vy}"}
    if fn_by in ("attr", "both"):
        attrs["face_node_connectivity"] = fn
    else:
        # _is_ugrid wants the attribute to exist somewhere in the dataset
        ds["other"] = xr.DataArray(np.int32(0), attrs={"face_node_connectivity": fn})
    nl = lon if lon360 else ((lon + 180) % 360) - 180
    ds[vx] = xr.DataArray(nl, dims=[nv], attrs={"units": "degrees_east"})
    ds[vy] = xr.DataArray(lat, dims=[nv], attrs={"units": "degrees_north"})
    cattrs = {"_FillValue": np.array(fill).astype(dtype)[()], "start_index": np.int32(base)}
    if fn_by in ("cf_role", "both"):
        cattrs["cf_role"] = "face_node_connectivity"
    ds[fn] = xr.DataArray(padded(faces, W, fill, base, dtype), dims=[nc, mx], attrs=cattrs)
    if node_dim_attr:
        attrs["node_dimension"] = nv
    if face_dim_attr:
        attrs["face_dimension"] = nc
    if edge_conn is not None:
        eattrs = {"start_index": np.int32(base)}
        if edge_conn == "attr":
            attrs["edge_node_connectivity"] = "en"
        else:
            eattrs["cf_role"] = "edge_node_connectivity"
        ds["en"] = xr.DataArray((np.array(edges) + base).astype(dtype), dims=["ne", "two"], attrs=eattrs)
        if edge_dim_attr:
            attrs["edge_dimension"] = "ne"
    if edge_coords:
        attrs["edge_coordinates"] = "ex ey"
        el = np.array([(nl[a] + nl[b]) / 2 for a, b in edges])
        et = np.array([(lat[a] + lat[b]) / 2 for a, b in edges])
        ds["ex"] = xr.DataArray(el, dims=["ne"])
        ds["ey"] = xr.DataArray(et, dims=["ne"])
        if edge_dim_attr:
            attrs["edge_dimension"] = "ne"
    if face_coords:
        attrs["face_coordinates"] = "cx  cy" if transposed_coords else "cx cy"
        ds["cx"] = xr.DataArray(np.array([nl[f].mean() for f in faces]), dims=[nc])
        ds["cy"] = xr.DataArray(np.array([lat[f].mean() for f in faces]), dims=[nc])
    if face_edge:
        attrs["face_edge_connectivity"] = "fe"
        fe = padded([[0, 1, 2], [1, 3, 4, 5], [4, 6, 7, 8, 9], [0], [1], [2]], W, fill, base, dtype)
        ds["fe"] = xr.DataArray(fe, dims=[nc, mx], attrs={"_FillValue": np.array(fill).astype(dtype)[()], "start_index": np.int32(base)})
    ds[mesh] = xr.DataArray(np.int32(0), attrs=attrs)
    return ds


def ds_digest(ds):
    parts = [f"dims={dict(ds.sizes)} coords={sorted(ds.coords)} order={list(ds.variables)}"]
    for name in sorted(ds.variables):
        v = ds[name]
        parts.append(f"{name} dims={v.dims} dtype={v.dtype} attrs={ {k: repr(a) for k, a in sorted(v.attrs.items())} }\n{v.values!r}")
    return "\n".join(parts)


def case(label, make, direct=True):
    # 1. the reader itself (returns dataset + source dims dict, in insertion order)
    if direct:
        try:
            src = make()
            out, dim_dict = _read_ugrid(src)
            print(f"READ {label}: dim_dict={list(dim_dict.items())}\n{ds_digest(out)}")
        except Exception as e:  # noqa
            print(f"READ {label}: EXC {type(e).__name__}: {e}")
    # 2. through the public entry point
    try:
        g = ux.open_grid(make())
        print(f"GRID {label}: n_face={g.n_face} n_node={g.n_node} spec={g.source_grid_spec} srcdims={list(g._source_dims_dict.items())}")
        print(ds_digest(g._ds))
        fnc = g.face_node_connectivity
        print("  fnc", fnc.dtype, fnc.attrs.get("_FillValue"), fnc.values.min(), fnc.values.max(), "lon range", float(g.node_lon.min()), float(g.node_lon.max()))
    except Exception as e:  # noqa
        print(f"GRID {label}: EXC {type(e).__name__}: {e}")


# all combinations of the optional topology attributes
for nd, fd, ed, ec, fc, econn in itertools.product((False, True), (False, True), (False, True), (False, True), (False, True), (None, "attr", "cf_role")):
    case(
        f"nd={nd} fd={fd} ed={ed} ec={ec} fc={fc} econn={econn}",
        lambda: make_ds(node_dim_attr=nd, face_dim_attr=fd, edge_dim_attr=ed, edge_coords=ec, face_coords=fc, edge_conn=econn),
        direct=(econn != "cf_role"),
    )

# dialects: index base / fill / dtype / names / longitude convention
for fill, base, dtype in ((-1, 0, np.int32), (0, 1, np.int64), (-999, 1, np.int16), (np.nan, 1, np.float64), (np.nan, 0, np.float32), (FV := INT_FILL_VALUE, 0, INT_DTYPE), (255, 1, np.uint8)):
    for lon360 in (True, False):
        case(
            f"dialect fill={fill} base={base} dtype={np.dtype(dtype).name} lon360={lon360}",
            lambda: make_ds(fill=fill, base=base, dtype=dtype, lon360=lon360, edge_conn="attr", edge_coords=True, face_coords=True, face_edge=True, edge_dim_attr=True),
        )

# names that collide with / equal the UGRID names, and odd names
case("ugrid-named", lambda: make_ds(names=("grid_topology", "node_lon", "node_lat", "face_node_connectivity", "n_node", "n_face", "n_max_face_nodes"), face_coords=True))
case("odd names", lambda: make_ds(names=("Mesh2", "Mesh2_node_x", "Mesh2_node_y", "Mesh2_face_nodes", "nMesh2_node", "nMesh2_face", "nMaxMesh2_face_nodes"), node_dim_attr=True, face_dim_attr=True, fn_by="both", edge_conn="cf_role", edge_coords=True))
case("fn by cf_role only", lambda: make_ds(fn_by="cf_role", face_coords=True, transposed_coords=True))
# same dimension for nodes and faces is impossible here (12 vs 6) but node dim == edge dim name clash:
case("node_dimension attr wrong name", lambda: make_ds(node_dim_attr=True, names=("mesh", "vx", "vy", "fn", "nv", "nc", "mx")).pipe(lambda d: d.assign(mesh=d["mesh"].assign_attrs(node_dimension="nope"))))
case("edge_dimension attr without edge vars", lambda: make_ds().pipe(lambda d: d.assign(mesh=d["mesh"].assign_attrs(edge_dimension="ne"))))
case("edge_coordinates names missing var", lambda: make_ds().pipe(lambda d: d.assign(mesh=d["mesh"].assign_attrs(edge_coordinates="ex ey"))))
case("face_coordinates three names", lambda: make_ds(face_coords=True).pipe(lambda d: d.assign(mesh=d["mesh"].assign_attrs(face_coordinates="cx cy cz"))))
case("edge_coordinates one name", lambda: make_ds(edge_coords=True, edge_conn="attr").pipe(lambda d: d.assign(mesh=d["mesh"].assign_attrs(edge_coordinates="ex"))))
case("edge and face coordinates same vars", lambda: make_ds(face_coords=True).pipe(lambda d: d.assign(mesh=d["mesh"].assign_attrs(edge_coordinates="cx cy"))))
case("fn var missing", lambda: make_ds().drop_vars("fn"))
case("fn var missing but face_dimension given", lambda: make_ds(face_dim_attr=True).drop_vars("fn"))
def _unreferenced(**kw):
    d = make_ds(fn_by="cf_role", **kw)
    d["fn"].attrs.pop("cf_role")
    return d


case("fn unreferenced (no attr, no cf_role)", lambda: _unreferenced())
case("fn unreferenced, face_dimension given", lambda: _unreferenced(face_dim_attr=True, node_dim_attr=True))
case("non-string dimension attr", lambda: make_ds().pipe(lambda d: d.assign(mesh=d["mesh"].assign_attrs(face_dimension=5))))

# source dataset left untouched
src = make_ds(fill=0, base=1, edge_conn="attr", edge_coords=True, face_coords=True)
before = ds_digest(src)
g = ux.open_grid(src)
print("source untouched:", ds_digest(src) == before)

for path in ("test/meshfiles/ugrid/quad-hexagon/grid.nc", "test/meshfiles/ugrid/outCSne30/outCSne30.ug", "test/meshfiles/ugrid/outRLL1deg/outRLL1deg.ug", "test/meshfiles/ugrid/ov_RLL10deg_CSne4/ov_RLL10deg_CSne4.ug", "test/meshfiles/ugrid/geoflow-small/grid.nc", "test/meshfiles/ugrid/fesom/fesom.mesh.diag.nc"):
    try:
        g = ux.open_grid(path)
        h = hashlib.sha1()
        for name in sorted(g._ds.variables):
            h.update(name.encode())
            h.update(repr(g._ds[name].dims).encode())
            h.update(np.ascontiguousarray(g._ds[name].values).tobytes())
        print("FILE", path, g.n_face, g.n_node, list(g._source_dims_dict.items()), dict(g._ds.sizes), h.hexdigest())
    except Exception as e:  # noqa
        print("FILE", path, "EXC", type(e).__name__, str(e)[:300])
